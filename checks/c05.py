"""C05 — the in-memory and the on-disk engine are observationally equivalent.

  (i)   proofs Props/C05.v (both engines refine the same bag for every history, equal DELETE counts);
  (ii)  correspondence Corr/C05.v: on DML histories the memory engine is the model's mem_step machine
        (exact order) and the disk engine returns the same bag;
  (iii) differential oracle: the same script (DDL, inserts, deletes, compactor passes, queries,
        failing statements) on the memory engine and on the disk engine under several layouts must
        give the same outcome statement by statement.
"""
import json

from .common import *  # noqa: F401,F403

HEADER = "From RL Require Import Corr.C05.\n"


def lit(v):
    if v is None:
        return "null"
    if isinstance(v, str):
        return "'" + v + "'"
    if isinstance(v, bool):
        return "true" if v else "false"
    return repr(v) if isinstance(v, float) else str(v)


def gen_script(rng, tier):
    """returns dict(steps=[...], kinds=[...], meta)"""
    pk = rng.random() < 0.6
    pk_pos = 0 if rng.random() < 0.85 else 1
    extra = rng.choice([None, None, "s varchar", "f double", "d date", "q boolean"])
    key_second = pk and pk_pos == 1
    cols = ["b int", "a int primary key"] if key_second else ["a int" + (" primary key" if pk else ""), "b int"]
    if extra:
        cols.append(extra)
    steps, kinds = [], []

    def add(step, kind):
        steps.append(step)
        kinds.append(kind)

    add({"sql": f"create table t({', '.join(cols)})"}, "ddl")
    add({"sql": "create table u(k int, v int)"}, "ddl")
    akeys = []
    nexta = [0]
    dupkeys = pk and rng.random() < 0.3      # runs of equal key values (key uniqueness is not enforced): they straddle block boundaries

    def row():
        if pk and dupkeys:
            nexta[0] += rng.choice([0, 0, 0, 0, 1, 2])
            a = nexta[0]
        elif pk:
            nexta[0] += rng.randint(1, 3)
            a = nexta[0] * rng.choice([1, 1, 1, -1])
        else:
            a = rng.randint(-5, 40)
        akeys.append(a)
        b = rng.choice([None, 0, 1, 2, 3, 7])
        r = [b, a] if key_second else [a, b]
        if extra:
            r.append({"s varchar": rng.choice([None, "", "x", "yy", "hello world " * 3]),
                      "f double": rng.choice([None, 0.5, -1.25, 3.0, 1e10]),
                      "d date": rng.choice([None, "DATE1", "DATE2"]),
                      "q boolean": rng.choice([None, True, False])}[extra])
        return r

    def lit_row(r):
        out = []
        for v in r:
            if v == "DATE1":
                out.append("date '2020-02-29'")
            elif v == "DATE2":
                out.append("date '1999-12-31'")
            else:
                out.append(lit(v))
        return "(" + ", ".join(out) + ")"

    def key_pred():
        pool = akeys or [0]
        k = rng.choice(pool) + rng.choice([0, 0, 0, 1, -1])
        k2 = rng.choice(pool)
        lo, hi = min(k, k2), max(k, k2)
        return rng.choice([f"a = {k}", f"a < {k}", f"a <= {k}", f"a > {k}", f"a >= {k}", f"a > {lo} and a < {hi}", f"a >= {lo} and a <= {hi}",
                           f"a >= {lo} and a < {hi} and b > 0", f"a > {k} and b is not null"])

    n = rng.randint(6, 14) if tier == "quick" else rng.randint(10, 30)
    for _ in range(n):
        r = rng.random()
        if r < 0.3:
            nrows = rng.choice([1, 3, 10, 40, 80, rng.randint(1, 120)]) if rng.random() < 0.97 else 2500
            rows = [row() for _ in range(nrows)]
            if pk:
                rng.shuffle(rows)
            add({"sql": "insert into t values " + ", ".join(lit_row(x) for x in rows)}, "insert")
        elif r < 0.38:
            rows = [[rng.choice(akeys or [1]) if rng.random() < 0.7 else rng.randint(0, 50), rng.randint(0, 5)] for _ in range(rng.randint(1, 8))]
            add({"sql": "insert into u values " + ", ".join(f"({k}, {v})" for k, v in rows)}, "insert-u")
        elif r < 0.52:
            p = rng.choice([key_pred(), key_pred(), f"b = {rng.randint(0, 3)}", "b is null", f"a % 2 = {rng.randint(0, 1)}"])
            add({"sql": f"delete from t where {p}"}, "delete")
        elif r < 0.62:
            add({"sleep_ms": 900}, "sleep")
        elif r < 0.70:
            bad = rng.choice(["insert into nosuch values (1)", "select nosuch from t", "create table t(x int)", "select * from t where a = 'x' + 1",
                              "insert into t values (1)", "delete from nosuch", "select a from t group by b", "drop table nosuch",
                              "insert into u values (1, 2, 3)", "select * from t join u"])
            add({"sql": bad}, "bad")
        else:
            k = rng.random()
            if k < 0.35:
                q, ordered = f"select * from t where {key_pred()}", None
            elif k < 0.45:
                q, ordered = f"select a, b from t where {key_pred()} order by a", ("a",)
            elif k < 0.55:
                lim = rng.choice(["", " limit 3", " limit 10 offset 2"])
                q, ordered = f"select a, b from t order by a{' desc' if rng.random() < 0.3 else ''}{lim}", ("a",)
            elif k < 0.65:
                q, ordered = "select b, count(*), sum(a), min(a), max(a) from t group by b", None
            elif k < 0.75:
                jt = rng.choice(["join", "left join"])
                q, ordered = f"select t.a, t.b, u.v from t {jt} u on t.a = u.k", None
            elif k < 0.82:
                q, ordered = "select count(*), count(b), sum(b) from t", None
            elif k < 0.9:
                q, ordered = "select * from t", None
            else:
                q, ordered = f"select a from t where {key_pred()} and a in (select k from u)", None
            add({"sql": q}, "query-ordered" if ordered else "query")
    # always finish with full scans
    add({"sql": "select * from t"}, "query")
    add({"sql": "select a, b from t order by a"}, "query-ordered")
    return {"steps": steps, "kinds": kinds, "pk": pk, "pk_first": not key_second, "extra": extra}


def chunk_boundary_scripts():
    """grouping on the key of a keyed table (a sort aggregation on disk, a hash aggregation in memory) whose number of groups is a
    whole number of 1024-row output chunks"""
    out = []
    for n in (1024, 2048):
        steps = [{"sql": "create table t(a int primary key, b int)"}, {"sql": "create table u(k int, v int)"}]
        kinds = ["ddl", "ddl"]
        for lo in range(0, n, 512):
            steps.append({"sql": "insert into t values " + ", ".join(f"({i}, {i % 7})" for i in range(lo, lo + 512))})
            kinds.append("dml")
        for q in ("select a, count(*) from t group by a", "select a, sum(b), min(b) from t group by a", "select count(*) from (select a from t group by a) g",
                  "select * from t"):
            steps.append({"sql": q})
            kinds.append("query")
        steps.append({"sql": "select a, b from t order by a"})
        kinds.append("query-ordered")
        out.append({"steps": steps, "kinds": kinds, "pk": True, "pk_first": True, "extra": None})
    return out


DISK_CONFIGS = [
    {"block": 64, "rowset": 800},
    {"block": 128, "rowset": 5000, "crc": False},
    {},
    {"block": 4096, "rowset": 100000},
]


def canon_rows(o):
    return sorted(json.dumps(r) for r in o["ok"][0]["rows"]) if o["ok"] else []


def gen_dml(rng, tier):
    """DML-only history on one table without key: (ops, steps)"""
    steps = [{"sql": "create table t(a int, b int)"}]
    ops = []
    for _ in range(rng.randint(3, 9) if tier == "quick" else rng.randint(5, 16)):
        if rng.random() < 0.6:
            rows = [(rng.randint(0, 12), rng.choice([None, 0, 1, 2])) for _ in range(rng.choice([1, 2, 5, 15, 30]))]
            steps.append({"sql": "insert into t values " + ", ".join(f"({a}, {lit(b)})" for a, b in rows)})
            ops.append(("ins", rows))
        else:
            k = rng.randint(0, 12)
            kind = rng.choice(["a<", "a=", "b=", "bnull", "all"])
            pred, fn = {"a<": (f"a < {k}", lambda r, k=k: r[0] < k), "a=": (f"a = {k}", lambda r, k=k: r[0] == k),
                        "b=": (f"b = {k % 3}", lambda r, k=k: r[1] is not None and r[1] == k % 3),
                        "bnull": ("b is null", lambda r: r[1] is None), "all": (None, lambda r: True)}[kind]
            steps.append({"sql": "delete from t" + (f" where {pred}" if pred else "")})
            ops.append(("del", fn))
        if rng.random() < 0.25:
            steps.append({"sleep_ms": 900})
            ops.append(("sleep", None))
        steps.append({"sql": "select * from t"})
        ops.append(("scan", None))
    return ops, steps


def run(R, only=None):
    R.prove()
    build_harness()
    n = 120 if R.tier == "quick" else 1500
    scripts = only or ([gen_script(R.rng, R.tier) for _ in range(n)] + chunk_boundary_scripts())
    jobs, index = [], []
    for si, s in enumerate(scripts):
        cfgs = [R.rng.choice(DISK_CONFIGS[:2]), R.rng.choice(DISK_CONFIGS[2:])] if not only else DISK_CONFIGS
        s["cfgs"] = cfgs
        jobs.append({"engine": "mem", "atomic": True, "steps": s["steps"]})
        index.append((si, "mem"))
        for c in cfgs:
            jobs.append({"engine": "disk", "atomic": True, **c, "steps": s["steps"]})
            index.append((si, c))
    outs = run_harness("sql", jobs, jobs=16)
    by = {}
    for (si, c), o in zip(index, outs):
        by.setdefault(si, []).append((c, o))
    kinds = {}
    compared = 0
    for si, s in enumerate(scripts):
        (_, mem), disks = by[si][0], by[si][1:]
        for k in s["kinds"]:
            kinds[k] = kinds.get(k, 0) + 1
        for cfg, dk in disks:
            replay = {"kind": "sql-script-differential", "script": s, "disk": cfg}
            if not isinstance(mem, list) or not isinstance(dk, list) or len(mem) < len(s["steps"]) or len(dk) < len(s["steps"]):
                which = "memory" if not isinstance(mem, list) or len(mem) < len(s["steps"]) else f"disk {cfg}"
                bad = mem if which == "memory" else dk
                R.property_fails(None, f"C05 the script aborted on the {which} engine: {json.dumps(bad[-1] if isinstance(bad, list) and bad else bad)[:200]}", replay)
                continue
            for i, (st, kind, m, d) in enumerate(zip(s["steps"], s["kinds"], mem, dk)):
                if "sql" not in st:
                    continue
                compared += 1
                klass = None
                if s["pk"] and not s["pk_first"]:
                    klass = "KF_C13_key_not_first_scanned"
                elif s["pk"] and kind.startswith("query") and " where a" in st["sql"] and not st["sql"].startswith("select *") and not st["sql"].startswith("select a"):
                    klass = "KF_C13_key_not_first_scanned"
                mok, dok = "ok" in m, "ok" in d
                if any(t in json.dumps(x) for x in (m, d) for t in ("not found from input", "Apply is not supported")):
                    klass = "KF_C17_subquery_not_executable"   # which plan the optimiser extracts depends on the engine's statistics
                if mok != dok:
                    R.property_fails(klass, f"C05 step {i} `{st['sql'][:90]}`: memory engine {'succeeds' if mok else 'fails: ' + json.dumps(m)[:90]}, "
                                            f"disk engine {cfg} {'succeeds' if dok else 'fails: ' + json.dumps(d)[:90]}", replay)
                    break
                if not mok:
                    continue
                # (ORDER BY .. LIMIT with equal keys may legitimately keep different rows: only the keys are compared then)
                if canon_rows(m) != canon_rows(d) and not (kind == "query-ordered" and " limit " in st["sql"]):
                    R.property_fails(klass, f"C05 step {i} `{st['sql'][:90]}`: {len(m['ok'][0]['rows'])} rows on the memory engine, "
                                            f"{len(d['ok'][0]['rows'])} on disk {cfg}; as bags they differ", replay)
                    break
                if kind == "query-ordered":
                    km = [r[0] for r in m["ok"][0]["rows"]]
                    kd = [r[0] for r in d["ok"][0]["rows"]]
                    if km != kd:
                        R.property_fails(klass, f"C05 step {i} `{st['sql'][:90]}`: the ORDER BY key sequence differs between the engines ({cfg})", replay)
                        break
    # DML histories against the model
    hist = [gen_dml(R.rng, R.tier) for _ in range(150 if R.tier == "quick" else 2000)] if not only else []
    jobs = []
    for ops, steps in hist:
        jobs.append({"engine": "mem", "atomic": True, "steps": steps})
        jobs.append({"engine": "disk", "atomic": True, **R.rng.choice(DISK_CONFIGS[:2]), "steps": steps})
    outs = run_harness("sql", jobs, jobs=16) if jobs else []
    terms, usable = [], []
    for hi, (ops, steps) in enumerate(hist):
        mem, dk = outs[2 * hi], outs[2 * hi + 1]
        if not isinstance(mem, list) or not isinstance(dk, list) or len(mem) < len(steps) or len(dk) < len(steps) or any("err" in x or "panic" in x for x in mem + dk):
            R.property_fails(None, f"C05 a DML history failed: {json.dumps([x for x in (mem + dk if isinstance(mem, list) and isinstance(dk, list) else [mem, dk]) if not isinstance(x, dict) or 'ok' not in x and 'slept' not in x][:1])[:200]}",
                             {"kind": "sql-script", "case": {"engine": "disk", "steps": steps}})
            continue
        codes = {}
        def code(r):
            r = tuple(r)
            if r not in codes:
                codes[r] = len(codes)
            return codes[r]
        csteps, cur, j = [], None, 1
        for kind, arg in ops:
            if kind == "ins":
                cur = ("XInsert " + clist(str(code(r)) for r in arg), 0, 0)
            elif kind == "del":
                seen = [tuple(r) for r in codes]
                cur = ("XDelete " + clist(str(code(r)) for r in seen if arg(r)), mem[j]["ok"][0]["rows"][0][0][1], dk[j]["ok"][0]["rows"][0][0][1])
            elif kind == "scan":
                mrows = [code(tuple(None if v is None else v[1] for v in r)) for r in mem[j]["ok"][0]["rows"]]
                drows = sorted(code(tuple(None if v is None else v[1] for v in r)) for r in dk[j]["ok"][0]["rows"])
                csteps.append(f"mk_step ({cur[0]}) {clist(map(str, mrows))} {clist(map(str, drows))} {cur[1]} {cur[2]}")
            j += 1
        terms.append(f"mk_case {clist(csteps)}")
        usable.append(steps)
    failing = coq_eval("C05", HEADER, terms, per_file=15) if terms else {}
    if failing:
        i = sorted(failing)[0]
        c = failing[i][0]
        R.correspondence_broken(f"C05 statement {c // 10}: " + {1: "memory engine SELECT * = model mem_scan (exact order)", 2: "disk engine SELECT * = model (bag)",
                                                                   3: "DELETE counts = model"}[c % 10], json.dumps({"steps": usable[i]})[:3000])
    R.coverage.update({
        "evaluations": compared + len(terms), "distinct_nontrivial": len(scripts),
        "rule": "scripts of 8-32 statements (DDL, inserts of 1-120 rows and occasionally 2500, key-range / column / NULL deletes, compactor passes, key-range "
                "filters with residuals, ORDER BY key with LIMIT/OFFSET, GROUP BY, joins, IN-subquery, 10 kinds of failing statements) on the memory "
                "engine and on two disk layouts each (block 64..default, row-set size 800..default, checksum on/off), keyed (key first or second) and "
                "unkeyed tables, an extra VARCHAR/DOUBLE/DATE/BOOLEAN column; outcomes compared statement by statement (ok/err, bag, key sequence)",
        "samples": [scripts[0]["steps"][:5]] if scripts else [], "statement_kind_distribution": kinds, "dml_histories": len(terms),
        "model_vs_impl_disagreements": len(failing),
    })
    R.assumptions += ["error TEXTS are not compared, only success vs failure", "concurrency between statements and the compactor is C09/C10's subject: "
                      "the harness lets the compactor run only inside the explicit wait steps"]


def replay(R, path):
    d = json.load(open(path))
    if "script" in d:
        run(R, only=[d["script"]])
    else:
        run(R)
    return R.finish()
