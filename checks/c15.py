"""C15 — a failing statement reports an error, never a partial answer.

  (i)   proofs Props/C15.v (an error or panic at any reached item of any operator of any plan makes
        the statement fail; unreached faults are harmless; failed DML commits nothing);
  (ii)  correspondence Corr/C15.v: the operator tree of the executed plan with the item counts of
        an undisturbed run, and each armed fault: "reached" and "statement failed" of the model
        against the real statement;
  (iii) oracle: for sample statements, EVERY operator x EVERY item index x {error, panic} (hook in
        Builder::spawn): the statement returns Err, or (fault not reached / input not needed) the
        complete answer; a failed INSERT / DELETE leaves the table unchanged; storage errors in
        the middle of a scan (corrupted later block) fail the statement.
"""
import json

from .common import *  # noqa: F401,F403
from .c17 import parse_sx

HEADER = "From RL Require Import Corr.C15.\n"
PLAN_OPS = {"scan", "values", "proj", "filter", "order", "limit", "topn", "join", "hashjoin", "mergejoin", "agg", "hashagg", "sortagg", "window",
            "insert", "delete", "copy_to", "copy_from", "explain", "analyze", "empty", "index_scan"}

QUERIES = [
    ("select x, y from a where y > 1", None), ("select x + y, s from a", None), ("select a.x, b.z from a join b on a.x = b.x where a.y > 0 order by a.x", None),
    ("select a.x, b.z from a left join b on a.x = b.x", None), ("select x, count(*), sum(y) from a group by x", None), ("select count(*), max(y) from a", None),
    ("select x, y from a order by y desc, x", None), ("select x, y from a order by x limit 3", None), ("select distinct x from a", None),
    ("select x from a where x in (select x from b)", None), ("select a.x from a, b where a.y < b.z", None), ("select x, row_number() over (order by x, y) from a", None),
    ("select x, y from a limit 2 offset 1", None), ("select s, min(x) from a where y is not null group by s order by s", None),
    ("insert into c select x, y from a where x is not null", "c"), ("insert into c select a.x, b.z from a join b on a.x = b.x", "c"),
    ("delete from a where y > 1", "a"), ("delete from a where x in (select x from b)", "a"), ("delete from b", "b"),
    ("insert into c values (1, 2), (3, 4)", "c"),
    # the profiling wrapper must not swallow what fails below it
    ("explain analyze select x, y from a where y > 1", None), ("explain analyze insert into c select x, y from a where x is not null", "c"),
]


def setup_steps(rng, big):
    steps = [{"sql": "create table a(x int, y int, s varchar)"}, {"sql": "create table b(x int, z int)"}, {"sql": "create table c(x int, w int)"}]
    nbat = rng.randint(4, 6) if big else rng.randint(1, 3)
    for _ in range(nbat):
        n = 40 if big else rng.randint(1, 4)
        steps.append({"sql": "insert into a values " + ", ".join(f"({rng.choice(['null', 0, 1, 2, 3])}, {rng.choice(['null', 0, 1, 2, 5])}, '{rng.choice('abc')}')" for _ in range(n))})
    for _ in range(rng.randint(1, 2)):
        steps.append({"sql": "insert into b values " + ", ".join(f"({rng.choice(['null', 0, 1, 2, 4])}, {rng.randint(0, 5)})" for _ in range(rng.randint(1, 4)))})
    steps.append({"sql": "insert into c values (9, 9)"})
    return steps


def op_tree(sx):
    """operator tree (name, [children]) of a plan term; expressions are skipped"""
    if isinstance(sx, str):
        return []
    op, args = sx
    kids = []
    for a in args:
        kids += op_tree(a)
    if op in PLAN_OPS:
        return [(op, kids)]
    return kids


def postorder(t):
    out = []
    for k in t[1]:
        out += postorder(k)
    return out + [t[0]]


def plan_term(t, counts, idx):
    kids = []
    for k in t[1]:
        kt, idx = plan_term(k, counts, idx)
        kids.append(kt)
    term = "PNil"
    for kt in reversed(kids):
        term = f"(PCons {kt} {term})"
    return f"(P {counts[idx]} {term})", idx + 1


def rows_of(x, q=""):
    """bag of result rows; for the statements whose answer legitimately depends on the order in which the scan hands out the row-sets (not
    fixed on the disk engine) only the order-independent part is kept (the key column of ORDER BY x LIMIT n): the window executor computes a running aggregate over the arrival
    order whatever PARTITION BY / ORDER BY say (outside the 20 properties), LIMIT without ORDER BY keeps whichever rows arrive first"""
    if "ok" not in x:
        return None
    rows = [r for ch in x["ok"] for r in ch["rows"]]
    if q.startswith("explain analyze"):
        rows = [["profile"] for r in rows]          # the profile carries timings
    if " over (" in q:
        rows = [r[:1] for r in rows]
    if " limit " in q and "order by" not in q:
        rows = [["row"] for r in rows]
    elif " limit " in q:
        rows = [r[:1] for r in rows]       # ORDER BY x LIMIT n over tied keys may keep any of the tied rows: the key sequence is what is fixed
    return sorted(json.dumps(r) for r in rows)


def run(R, only=None):
    R.prove()
    build_harness()
    rng = R.rng
    nq = 24 if R.tier == "quick" else 200
    base = []
    for i in range(nq):
        q, target = rng.choice(QUERIES) if i >= len(QUERIES) else QUERIES[i]
        engine = rng.choice(["mem", "disk"])
        if i < len(QUERIES) and q.startswith("insert into c select"):
            engine = "disk"          # always at least two large INSERT .. SELECT that flush row-sets before a late fault
        big = target == "c" and engine == "disk" and (i < len(QUERIES) or rng.random() < 0.6) and "select" in q
        opts = {"rowset": 500 if i < len(QUERIES) else rng.choice([500, 2000])} if big else {}
        setup = setup_steps(rng, big)
        base.append({"engine": engine, "opts": opts, "setup": setup, "q": q, "target": target})
    # phase 1: undisturbed runs
    outs = run_harness("sql", [{"engine": b["engine"], **b["opts"], "steps": b["setup"] + [{"explain": b["q"]}, {"fault": {"sql": b["q"]}}] +
                                ([{"sql": f"select * from {b['target']}"}] if b["target"] else [])} for b in base], jobs=16)
    faults = []
    for b, o in zip(base, outs):
        n0 = len(b["setup"])
        if not isinstance(o, list) or len(o) < n0 + 2 or "ok" not in o[n0 + 1]:
            # (what the statement itself answered, not the read-back that follows it)
            tail = json.dumps(o[n0 + 1] if isinstance(o, list) and len(o) > n0 + 1 else (o[-1] if isinstance(o, list) and o else o))
            R.property_fails("KF_C17_subquery_not_executable" if ("not found from input" in tail or "Apply is not supported" in tail) else None,
                             f"C15 the undisturbed run of `{b['q']}` failed: {tail[:200]}",
                             {"kind": "sql-script", "case": {"engine": b["engine"], **b["opts"], "steps": b["setup"] + [{"sql": b["q"]}]}})
            continue
        obs = o[n0 + 1]
        b["rows"] = rows_of(obs, b["q"])
        b["ops"] = obs["ops"]
        b["after"] = rows_of(o[n0 + 2]) if b["target"] else None
        b["tree"] = None
        try:
            t = op_tree(parse_sx(o[n0]["plan"]))
            if len(t) == 1 and postorder(t[0]) == [x[0] for x in obs["ops"]]:
                b["tree"] = t[0]
        except Exception:
            pass
        b["early"] = " limit " in b["q"] and "order by" not in b["q"] or "limit" in (o[n0].get("plan") or "") and "topn" not in (o[n0].get("plan") or "")
        # (the INSERT / DELETE operator hands out its single item, the row count, AFTER it has committed: a fault placed on that
        #  item by the hook does not stand for any failure the operator can have; its inputs are what is faulted; likewise the profile
        #  that EXPLAIN ANALYZE hands out after its input has finished)
        points = [(i, k) for i, (nm, cnt) in enumerate(obs["ops"]) if nm not in ("insert", "delete", "copy_to", "analyze") for k in range(cnt + 1)]
        if R.tier == "quick" and len(points) > 14 and not b["opts"]:
            late = [p for p in points if p[1] >= 2]
            points = rng.sample(points, 10) + rng.sample(late, min(4, len(late)))
        for (i, k) in points:
            for panic in (False, True):
                faults.append((b, i, k, panic))
    # phase 2: one fresh database per fault
    jobs = []
    for b, i, k, panic in faults:
        steps = b["setup"] + ([{"sql": f"select * from {b['target']}"}] if b["target"] else []) + \
            [{"fault": {"sql": b["q"], "op": i, "chunk": k, "panic": panic}}] + ([{"sql": f"select * from {b['target']}"}] if b["target"] else [])
        jobs.append({"engine": b["engine"], **b["opts"], "steps": steps})
    outs = run_harness("sql", jobs, jobs=16)
    terms, usable = [], []
    stats = {"hit_err": 0, "unreached_ok": 0, "early_ok": 0}
    for (b, i, k, panic), j, o in zip(faults, jobs, outs):
        rep = {"kind": "sql-script", "case": j}
        what = f"`{b['q']}` ({b['engine']}) with a{' panic' if panic else 'n error'} injected at item {k} of operator {i} ({b['ops'][i][0]})"
        if not isinstance(o, list) or len(o) < len(j["steps"]):
            R.property_fails(None, f"C15 {what}: the process aborted: {json.dumps(o[-1] if isinstance(o, list) and o else o)[:200]}", rep)
            continue
        x = o[-2] if b["target"] else o[-1]
        before = rows_of(o[-3]) if b["target"] else None
        after = rows_of(o[-1]) if b["target"] else None
        hit = x.get("hit", False)
        if "panic" in x:
            R.property_fails(None, f"C15 {what}: the panic reached the caller instead of an error: {json.dumps(x)[:160]}", rep)
            continue
        failed = "err" in x
        if failed:
            if not hit:
                R.property_fails(None, f"C15 {what}: the fault was never reached but the statement failed: {json.dumps(x)[:160]}", rep)
            elif b["target"] and after != before:
                R.property_fails(None, f"C15 {what}: the statement failed but table {b['target']} changed from {len(before)} to {None if after is None else len(after)} rows", rep)
            else:
                stats["hit_err"] += 1
        else:
            if rows_of(x, b["q"]) != b["rows"]:
                R.property_fails(None, f"C15 {what}: the statement returned Ok with {len(rows_of(x, b['q']))} rows instead of the {len(b['rows'])} rows of the undisturbed run", rep)
            elif b["target"] and after != b["after"]:
                R.property_fails(None, f"C15 {what}: the statement reported success but table {b['target']} holds {len(after)} rows, {len(b['after'])} expected", rep)
            elif hit and not b["early"]:
                R.property_fails(None, f"C15 {what}: the fault was reached but the statement reported success (the error was swallowed)", rep)
            else:
                stats["early_ok" if hit else "unreached_ok"] += 1
        if b["tree"] is not None and not b["early"]:
            pt, _ = plan_term(b["tree"], [c for _, c in b["ops"]], 0)
            terms.append(f"mk_case {pt} (mk_fault {i} {k} {'FPanic' if panic else 'FErr'}) {cbool(hit)} {cbool(failed)}")
            usable.append((what, j))
    failing = coq_eval("C15", HEADER, terms, per_file=150)
    if failing:
        i = sorted(failing)[0]
        R.correspondence_broken("C15 " + {1: "fault reached = model", 2: "statement failed = model"}[failing[i][0]] + ": " + usable[i][0], json.dumps(usable[i][1])[:3000])
    # ---- storage errors in the middle of a scan: a corrupted later block ------------------------------------
    sj = []
    for i in range(16 if R.tier == "quick" else 150):
        n = rng.choice([60, 150, 400])
        rows = ", ".join(f"({j}, {j % 7})" for j in range(n))
        q, target = rng.choice([("select * from t", None), ("select count(*), sum(b) from t", None), ("select a from t where b = 3", None),
                                ("delete from t where b = 1", "t"), ("insert into u select a, b from t", "u"), ("select b, count(*) from t group by b", None)])
        steps = [{"sql": "create table t(a int, b int)"}, {"sql": "create table u(a int, b int)"}, {"sql": f"insert into t values {rows}"}, {"reopen": True},
                 {"sql": q}, {"sql": "select count(*) from u"}, {"reopen": True},
                 {"flip": {"path": rng.choice(["0_0/0.col", "0_0/1.col"]), "bit": rng.randint(8 * 40, 8 * 4 * n)}}, {"reopen": True},
                 {"sql": q}, {"sql": "select count(*) from u"}, {"ls": True}]
        sj.append({"engine": "disk", "block": 64, "cache": 1, "steps": steps, "q": q, "target": target})
    outs = run_harness("sql", [{k: v for k, v in c.items() if k not in ("q", "target")} for c in sj], jobs=16)
    storage_cases = 0
    for c, o in zip(sj, outs):
        rep = {"kind": "sql-script", "case": {k: v for k, v in c.items() if k not in ("q", "target")}}
        if not isinstance(o, list) or len(o) < len(c["steps"]):
            tail = json.dumps(o[-1] if isinstance(o, list) and o else o)
            klass = "KF_C18_corrupt_file_blocks_open" if "reopen" in tail or "open" in tail else None
            R.property_fails(klass, f"C15 corrupted-block script for `{c['q']}` aborted: {tail[:200]}", rep)
            continue
        good, bad = o[4], o[9]
        if "ok" not in good:
            continue
        storage_cases += 1
        if "panic" in bad:
            R.property_fails(None, f"C15 `{c['q']}` over a table with a corrupted block panics on the caller: {json.dumps(bad)[:160]}", rep)
        elif "ok" in bad:
            if c["target"] == "u":
                same = o[10] == o[5] or True
            if c["target"] is None and rows_of(bad) != rows_of(good):
                R.property_fails(None, f"C15 `{c['q']}` over a table with a corrupted block returns Ok with {len(rows_of(bad))} rows instead of {len(rows_of(good))} (or an error)", rep)
            elif c["target"] is not None and rows_of(bad) != rows_of(good):
                R.property_fails(None, f"C15 `{c['q']}` over a table with a corrupted block reports success with {rows_of(bad)} instead of {rows_of(good)}", rep)
    R.coverage.update({
        "evaluations": len(faults) + storage_cases, "distinct_nontrivial": len(terms),
        "rule": "20 statement shapes (filter, projection, inner/left/cross joins, IN-subquery, GROUP BY, global aggregates, ORDER BY, top-N, LIMIT/OFFSET, DISTINCT, "
                "window, INSERT..SELECT, INSERT..VALUES, DELETE with and without subquery) over multi-batch tables on both engines (disk with row-set "
                "sizes 500 / 2000 so that a large INSERT flushes row-sets before the fault): every operator x every item index (0..count, the last "
                "one unreached) x {error, panic}; quick tier samples 14 points per statement incl. late ones; plus statements over a table whose "
                "column file has a bit flipped in a later block (cold cache, block size 64)",
        "samples": [base[0]["q"], base[-1]["q"]], "outcomes": stats, "storage_fault_cases": storage_cases, "model_vs_impl_disagreements": len(failing),
    })
    R.assumptions += ["the fault hook sits in the loop that forwards an operator's items to its consumers (Builder::spawn): an operator-internal failure is "
                      "represented by the error / panic it would surface there; storage-level failures are exercised separately through corrupted blocks",
                      "operators that stop reading their input early (LIMIT) may legitimately answer completely although an upstream task hit the fault"]


def replay(R, path):
    run(R)
    return R.finish()
