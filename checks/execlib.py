"""Shared by C02 / C11 / C12: generated tables, physical plans as JSON trees, the Coq terms of
Corr/Exec.v, and running them through the harness (`sql` command, `plan` steps)."""
import json

from .common import *  # noqa: F401,F403

HEADER = "From RL Require Import Corr.Exec.\nOpen Scope Z_scope.\n"


# ---- values and tables ---------------------------------------------------------------------------
def dv_term(v, ty):
    if v is None:
        return "DNull"
    return {"i32": "DI32", "i64": "DI64", "i16": "DI16"}[ty] + f" {cz(v)}"


def row_term(row, tys):
    return clist(dv_term(v, t) for v, t in zip(row, tys))


def chunks_term(chunks, tys):
    return clist(clist(row_term(r, tys) for r in c) for c in chunks)


def out_rows_term(rows):
    """rows as the harness printed them: [null | [tag, payload]]"""
    def d(v):
        if v is None:
            return "DNull"
        tag, p = v
        if tag in ("i16", "i32", "i64"):
            return {"i32": "DI32", "i64": "DI64", "i16": "DI16"}[tag] + f" {cz(p)}"
        if tag == "bool":
            return f"DBool {cbool(p)}"
        if tag == "str":
            return "DStr " + clist(str(b) for b in p.encode())
        raise ValueError(tag)
    return clist(clist(d(v) for v in r) for r in rows)


def gen_table(rng, ncols, tys, max_chunks=3, max_rows=6, domain=None, null_p=0.2):
    domain = domain or [0, 1, 2, 3, -1]
    chunks = []
    for _ in range(rng.randint(0, max_chunks)):
        n = rng.randint(1, max_rows)
        chunks.append([[None if rng.random() < null_p else rng.choice(domain) for _ in range(ncols)] for _ in range(n)])
    return chunks


SQLTY = {"i32": "int", "i64": "bigint", "i16": "smallint"}


def setup_steps(tables):
    """tables: list of (name, [col types], chunks); one INSERT per chunk (= one chunk in memory)"""
    steps = []
    for name, tys, chunks in tables:
        cols = ", ".join(f"c{i} {SQLTY[t]}" for i, t in enumerate(tys))
        steps.append({"sql": f"create table {name}({cols})"})
        for c in chunks:
            vals = ", ".join("(" + ", ".join("null" if v is None else str(v) for v in r) + ")" for r in c)
            steps.append({"sql": f"insert into {name} values {vals}"})
    return steps


# ---- scalar expressions: ("col", side, i) | ("const", v) | (op, a, b) ------------------------------
def gen_sx(rng, nl, nr, depth=1, boolean=True):
    def leaf():
        if rng.random() < 0.8:
            side = rng.choice([0, 1]) if nr else 0
            return ("col", side, rng.randrange(nl if side == 0 else nr))
        return ("const", rng.choice([0, 1, 2]))
    if not boolean:
        if depth > 0 and rng.random() < 0.3:
            return ("+", leaf(), leaf())
        return leaf()
    r = rng.random()
    if depth > 0 and r < 0.25:
        return (rng.choice(["and", "or"]), gen_sx(rng, nl, nr, depth - 1), gen_sx(rng, nl, nr, depth - 1))
    if depth > 0 and r < 0.32:
        return ("not", gen_sx(rng, nl, nr, depth - 1))
    if r < 0.4:
        return ("isnull", gen_sx(rng, nl, nr, 0, False))
    return (rng.choice(["=", "=", "<", "<=", ">", ">=", "<>"]), gen_sx(rng, nl, nr, depth, False), gen_sx(rng, nl, nr, depth, False))


def sx_term(e, nl):
    k = e[0]
    if k == "col":
        return f"(SCol {e[2] + (nl if e[1] == 1 else 0)}%nat)"
    if k == "const":
        return f"(SConst (DI32 {cz(e[1])}))"
    if k == "not":
        return f"(SNot {sx_term(e[1], nl)})"
    if k == "isnull":
        return f"(SIsNull {sx_term(e[1], nl)})"
    name = {"=": "SEq", "<": "SLt", "<=": "SLe", ">": "SGt", ">=": "SGe", "<>": "SNe", "and": "SAnd", "or": "SOr", "+": "SAdd"}[k]
    return f"({name} {sx_term(e[1], nl)} {sx_term(e[2], nl)})"


def sx_json(e, tids):
    k = e[0]
    if k == "col":
        return {"c": [tids[e[1]], e[2]]}
    if k == "const":
        return str(e[1])
    if k in ("not", "isnull"):
        return [k, sx_json(e[1], tids)]
    return [k, sx_json(e[1], tids), sx_json(e[2], tids)]


def scan_json(tid, ncols):
    return ["scan", {"t": tid}, ["list"] + [{"c": [tid, i]} for i in range(ncols)], "true"]


JT = {"inner": "JInner", "left_outer": "JLeft", "right_outer": "JRight", "full_outer": "JFull", "semi": "JSemi", "anti": "JAnti"}


def run_cases(cases, jobs=16):
    """each case: {"tables": [...], "plan": json} -> flattened rows or None (error) + raw output"""
    inputs = [{"engine": "mem", "steps": setup_steps(c["tables"]) + [{"plan": c["plan"]}]} for c in cases]
    outs = run_harness("sql", inputs, jobs=jobs)
    res = []
    for o in outs:
        last = o[-1] if isinstance(o, list) and o else {"abort": o}
        if isinstance(last, dict) and "ok" in last:
            res.append((last["ok"][0]["rows"], last))
        else:
            res.append((None, last))
    return res


def case_term(op_term, L, Ltys, R, Rtys, obs_rows):
    obs = "None" if obs_rows is None else f"(Some {out_rows_term(obs_rows)})"
    return (f"mk_case ({op_term}) {chunks_term(L, Ltys)} {chunks_term(R, Rtys)} {len(Ltys)}%nat {len(Rtys)}%nat {obs}")


def canon_rows(rows):
    return sorted(json.dumps(r) for r in rows)
