"""C14 — vectorised expression evaluation equals scalar SQL semantics."""
import json

from .common import *  # noqa: F401,F403

HEADER = "From RL Require Import Corr.C14.\nOpen Scope Z_scope.\n"
BITS = {"i16": 16, "i32": 32, "i64": 64}
TYNAME = {"bool": "TBool", "i16": "TI16", "i32": "TI32", "i64": "TI64", "str": "TStr", "null": "TNull"}
SQLTY = {"bool": "BOOLEAN", "i32": "INT", "i64": "BIGINT", "str": "STRING"}


def promote(a, b):
    return a if BITS[a] >= BITS[b] else b


# ---- expression generation: trees as tuples ------------------------------------------------------
def gen_expr(rng, cols, want, depth):
    """cols: list of types; returns (tree, type). want: 'bool' | 'int' | 'str' | any concrete type"""
    def col_of(pred):
        c = [i for i, t in enumerate(cols) if pred(t)]
        return rng.choice(c) if c else None
    isint = lambda t: t in BITS
    if depth <= 0 or rng.random() < 0.25:
        if want == "bool":
            i = col_of(lambda t: t == "bool")
            if i is not None and rng.random() < 0.7:
                return ("col", i), "bool"
            return ("const", "bool", rng.random() < 0.5), "bool"
        if want == "str":
            i = col_of(lambda t: t == "str")
            if i is not None and rng.random() < 0.7:
                return ("col", i), "str"
            return ("const", "str", rng.choice(["", "a", "ab", "b"])), "str"
        i = col_of(isint)
        if i is not None and rng.random() < 0.75:
            return ("col", i), cols[i]
        v = rng.choice([0, 1, -1, 2, 3, 7, 2147483647, -2147483648, 100000, 2147483648, -5, 3000000000, -3000000000, 4294967297])
        return ("const", "i32" if -2**31 <= v < 2**31 else "i64", v), ("i32" if -2**31 <= v < 2**31 else "i64")
    r = rng.random()
    if want == "bool":
        if r < 0.3:
            a, ta = gen_expr(rng, cols, "int", depth - 1)
            b, tb = gen_expr(rng, cols, "int", depth - 1)
            return ("cmp", rng.choice(["=", "<>", ">", "<", ">=", "<="]), a, b), "bool"
        if r < 0.38:
            a, _ = gen_expr(rng, cols, "str", depth - 1)
            b, _ = gen_expr(rng, cols, "str", depth - 1)
            return ("cmp", rng.choice(["=", "<>", ">", "<", ">=", "<="]), a, b), "bool"
        if r < 0.45:
            a, _ = gen_expr(rng, cols, "bool", depth - 1)
            b, _ = gen_expr(rng, cols, "bool", depth - 1)
            return ("cmp", rng.choice(["=", "<>", "<"]), a, b), "bool"
        if r < 0.62:
            a, _ = gen_expr(rng, cols, "bool", depth - 1)
            b, _ = gen_expr(rng, cols, "bool", depth - 1)
            return (rng.choice(["and", "or"]), a, b), "bool"
        if r < 0.72:
            a, _ = gen_expr(rng, cols, "bool", depth - 1)
            return ("not", a), "bool"
        if r < 0.84:
            a, _ = gen_expr(rng, cols, rng.choice(["int", "bool", "str"]), depth - 1)
            return ("isnull", a), "bool"
        if r < 0.93:
            a, ta = gen_expr(rng, cols, "int", depth - 1)
            items = [gen_expr(rng, cols, "int", 0)[0] for _ in range(rng.randint(1, 3))]
            return ("in", a, items), "bool"
        a, _ = gen_expr(rng, cols, "int", depth - 1)
        return ("cast", "bool", a), "bool"
    if want == "str":
        a, _ = gen_expr(rng, cols, "str", depth - 1)
        b, _ = gen_expr(rng, cols, "str", depth - 1)
        return ("concat", a, b), "str"
    # integers
    if r < 0.55:
        a, ta = gen_expr(rng, cols, "int", depth - 1)
        b, tb = gen_expr(rng, cols, "int", depth - 1)
        return ("arith", rng.choice(["+", "-", "*", "/", "%", "+", "-"]), a, b), promote(ta, tb)
    if r < 0.65:
        a, ta = gen_expr(rng, cols, "int", depth - 1)
        return ("neg", a), ta
    if r < 0.8:
        c, _ = gen_expr(rng, cols, "bool", depth - 1)
        a, ta = gen_expr(rng, cols, "int", depth - 1)
        b, tb = gen_expr(rng, cols, "int", depth - 1)
        if ta != tb:   # CASE needs equal branch types: cast both to the wider one
            t = promote(ta, tb)
            if t == "i16":
                t = "i32"
            a, b = (a if ta == t else ("cast", t, a)), (b if tb == t else ("cast", t, b))
            ta = t
            if t not in SQLTY:
                return a, ta
        return ("if", c, a, b), ta
    if r < 0.92:
        a, ta = gen_expr(rng, cols, "int", depth - 1)
        t = rng.choice(["i32", "i64"])
        return ("cast", t, a), t
    a, _ = gen_expr(rng, cols, "bool", depth - 1)
    t = rng.choice(["i32", "i64"])
    return ("cast", t, a), t


def sexpr(e):
    k = e[0]
    if k == "col":
        return f"#{e[1]}"
    if k == "const":
        if e[1] == "bool":
            return "true" if e[2] else "false"
        if e[1] == "str":
            return "'" + e[2] + "'"
        return str(e[2])
    if k == "arith":
        return f"({e[1]} {sexpr(e[2])} {sexpr(e[3])})"
    if k == "cmp":
        return f"({e[1]} {sexpr(e[2])} {sexpr(e[3])})"
    if k in ("and", "or"):
        return f"({k} {sexpr(e[1])} {sexpr(e[2])})"
    if k == "not":
        return f"(not {sexpr(e[1])})"
    if k == "neg":
        return f"(- {sexpr(e[1])})"
    if k == "isnull":
        return f"(isnull {sexpr(e[1])})"
    if k == "if":
        return f"(if {sexpr(e[1])} {sexpr(e[2])} {sexpr(e[3])})"
    if k == "in":
        return f"(in {sexpr(e[1])} (list {' '.join(sexpr(x) for x in e[2])}))"
    if k == "cast":
        return f"(cast {SQLTY[e[1]]} {sexpr(e[2])})"
    if k == "concat":
        return f"(|| {sexpr(e[1])} {sexpr(e[2])})"
    raise ValueError(k)


def coq_raw(t, v):
    if t == "bool":
        return f"(RB {cbool(v)})"
    if t == "str":
        return "(RS " + clist(str(b) for b in v.encode()) + ")"
    return f"(RI {cz(v)})"


def coq_expr(e):
    k = e[0]
    if k == "col":
        return f"(ECol {e[1]}%nat)"
    if k == "const":
        return f"(EConst {TYNAME[e[1]]} (Some {coq_raw(e[1], e[2])}))"
    if k == "arith":
        op = {"+": "AAdd", "-": "ASub", "*": "AMul", "/": "ADiv", "%": "ARem"}[e[1]]
        return f"(EArith {op} {coq_expr(e[2])} {coq_expr(e[3])})"
    if k == "cmp":
        op = {"=": "CEq", "<>": "CNe", ">": "CGt", "<": "CLt", ">=": "CGe", "<=": "CLe"}[e[1]]
        return f"(ECmp {op} {coq_expr(e[2])} {coq_expr(e[3])})"
    if k == "and":
        return f"(EAnd {coq_expr(e[1])} {coq_expr(e[2])})"
    if k == "or":
        return f"(EOr {coq_expr(e[1])} {coq_expr(e[2])})"
    if k == "not":
        return f"(ENot {coq_expr(e[1])})"
    if k == "neg":
        return f"(ENeg {coq_expr(e[1])})"
    if k == "isnull":
        return f"(EIsNull {coq_expr(e[1])})"
    if k == "if":
        return f"(EIf {coq_expr(e[1])} {coq_expr(e[2])} {coq_expr(e[3])})"
    if k == "in":
        return f"(EIn {coq_expr(e[1])} {coq_expr(e[2][0])} {clist(coq_expr(x) for x in e[2][1:])})"
    if k == "cast":
        return f"(ECast {TYNAME[e[1]]} {coq_expr(e[2])})"
    if k == "concat":
        return f"(EConcat {coq_expr(e[1])} {coq_expr(e[2])})"
    raise ValueError(k)


# ---- the scalar reference: SQL three-valued semantics on ONE row (None = NULL) --------------------
EAGER = [False]
LAX = [False]


class Overflow(Exception):
    pass


class TypeErr(Exception):
    pass


def ty_of(e, cols):
    k = e[0]
    if k == "col":
        return cols[e[1]]
    if k == "const":
        return e[1]
    if k == "arith":
        return promote(ty_of(e[2], cols), ty_of(e[3], cols))
    if k in ("cmp", "and", "or", "not", "isnull", "in"):
        return "bool"
    if k == "neg":
        return ty_of(e[1], cols)
    if k == "if":
        return ty_of(e[2], cols)
    if k == "cast":
        return e[1]
    if k == "concat":
        return "str"


def chk(t, v):
    b = BITS[t]
    if not (-(1 << (b - 1)) <= v < (1 << (b - 1))):
        raise Overflow()
    return v


def tdiv(x, y):
    q = abs(x) // abs(y)
    return q if (x >= 0) == (y >= 0) else -q


def seval(e, row, cols):
    k = e[0]
    if LAX[0] == 2 and k == "arith" and e[1] == "*":
        # mul-zero (one of the rules of the known finding KF_C01_null_unsound_expr_rules): `x * 0` is rewritten to 0 whatever x is
        for sub in (e[2], e[3]):
            try:
                if seval(sub, row, cols) == 0 and seval(sub, row, cols) is not None and sub[0] != "col":
                    return 0
            except (Overflow, TypeErr):
                pass
    if LAX[0] == 2 and k == "arith" and e[1] == "-" and e[2] == e[3]:
        return 0          # sub-cancel
    if LAX[0] == 2 and k == "cmp" and e[2] == e[3]:
        return e[1] in ("=", ">=", "<=")      # eq-eq family
    if k in ("and", "or") and LAX[0]:
        # an optimiser may drop an operand next to the absorbing element (`x and false`, `x or true`), erroring or not
        vals, exc = [], None
        for sub in (e[1], e[2]):
            try:
                vals.append(seval(sub, row, cols))
            except (Overflow, TypeErr) as ex:
                exc = ex
        if (k == "and" and False in [v for v in vals if v is not None]) or (k == "or" and True in [v for v in vals if v is not None]):
            return k == "or"
        if exc is not None:
            raise exc
    if k == "col":
        return row[e[1]]
    if k == "const":
        return e[2]
    if k == "arith":
        t = ty_of(e, cols)
        a, b = seval(e[2], row, cols), seval(e[3], row, cols)
        if a is None or b is None:
            return None
        op = e[1]
        if op in "/%" and b == 0:
            return None
        if op == "+":
            return chk(t, a + b)
        if op == "-":
            return chk(t, a - b)
        if op == "*":
            return chk(t, a * b)
        if op == "/":
            return chk(t, tdiv(a, b))
        chk(t, tdiv(a, b))
        return a - b * tdiv(a, b)
    if k == "cmp":
        a, b = seval(e[2], row, cols), seval(e[3], row, cols)
        if a is None or b is None:
            return None
        if isinstance(a, str):
            a, b = a.encode(), b.encode()
        return {"=": a == b, "<>": a != b, ">": a > b, "<": a < b, ">=": a >= b, "<=": a <= b}[e[1]]
    if k == "and":
        a, b = seval(e[1], row, cols), seval(e[2], row, cols)
        if a is False or b is False:
            return False
        return None if a is None or b is None else True
    if k == "or":
        a, b = seval(e[1], row, cols), seval(e[2], row, cols)
        if a is True or b is True:
            return True
        return None if a is None or b is None else False
    if k == "not":
        a = seval(e[1], row, cols)
        return None if a is None else (not a)
    if k == "neg":
        a = seval(e[1], row, cols)
        return None if a is None else chk(ty_of(e, cols), -a)
    if k == "isnull":
        return seval(e[1], row, cols) is None
    if k == "if":
        c = seval(e[1], row, cols)
        if EAGER[0]:     # vectorised evaluation computes both branches
            x, y = seval(e[2], row, cols), seval(e[3], row, cols)
            return x if c is True else y
        return seval(e[2], row, cols) if c is True else seval(e[3], row, cols)
    if k == "in":
        a = seval(e[1], row, cols)
        res = False
        for x in e[2]:
            b = seval(x, row, cols)
            eq = None if a is None or b is None else a == b
            if eq is True or res is True:
                res = True
            elif eq is None or res is None:
                res = None
        return res
    if k == "cast":
        a = seval(e[2], row, cols)
        if a is None:
            return None
        src = ty_of(e[2], cols)
        if e[1] == "bool":
            return a if src == "bool" else a != 0
        if src == "bool":
            return 1 if a else 0
        if not (-(1 << (BITS[e[1]] - 1)) <= a < (1 << (BITS[e[1]] - 1))):
            raise TypeErr()      # out-of-range cast: an error, not a wrapped value
        return a
    if k == "concat":
        a, b = seval(e[1], row, cols), seval(e[2], row, cols)
        return None if a is None or b is None else a + b
    raise ValueError(k)


def subexprs(e):
    out = [e]
    for x in e[1:]:
        if isinstance(x, tuple) and x and isinstance(x[0], str) and x[0] in ("col", "const", "arith", "cmp", "and", "or", "not", "neg", "isnull", "if", "in", "cast", "concat"):
            out += subexprs(x)
        elif isinstance(x, (list, tuple)) and x and all(isinstance(y, tuple) for y in x):
            for y in x:
                out += subexprs(y)
    return out


def error_kinds(e, row, cols):
    """which kinds of error ('overflow', 'cast') some subexpression raises on this row when everything is evaluated"""
    kinds = set()
    EAGER[0] = True
    try:
        for sub in subexprs(e):
            try:
                seval(sub, row, cols)
            except Overflow:
                kinds.add("overflow")
            except TypeErr:
                kinds.add("cast")
            except Exception:
                pass
    finally:
        EAGER[0] = False
    return kinds


def gen_col(rng, t, n):
    valid, raw = [], []
    for _ in range(n):
        v = rng.random() < 0.7
        valid.append(v)
        if t == "bool":
            raw.append(rng.random() < 0.5)          # arbitrary raw bit under NULL too
        elif t == "str":
            raw.append(rng.choice(["", "a", "ab", "b", "B"]) if v or rng.random() < 0.5 else "zz")
        else:
            b = BITS[t]
            lo, hi = -(1 << (b - 1)), (1 << (b - 1)) - 1
            pool = [0, 1, -1, 2, 3, lo, hi, hi - 1, lo + 1, 7, -7]
            raw.append(rng.choice(pool) if (v or rng.random() < 0.6) else 0)
    return {"ty": t, "valid": valid, "raw": raw}


def gen_case(rng, tier):
    ncols = rng.randint(1, 4)
    cols = [rng.choice(["i32", "i32", "i64", "i16", "bool", "bool", "str"]) for _ in range(ncols)]
    n = rng.choice([0, 1, 2, 5, 63, 64, 65, 127, 128, 129, rng.randint(1, 200)])
    if tier == "quick":
        n = min(n, rng.choice([5, 65, 130]))
    e, t = gen_expr(rng, cols, rng.choice(["bool", "bool", "int", "int", "str"]), rng.randint(1, 3))
    return {"cols": [gen_col(rng, t2, n) for t2 in cols], "n": n, "expr": sexpr(e), "tree": e, "types": cols}


def to_tuple(x):
    return tuple(to_tuple(y) for y in x) if isinstance(x, list) else x


def logical_rows(case):
    rows = []
    for i in range(case["n"]):
        rows.append([c["raw"][i] if c["valid"][i] else None for c in case["cols"]])
    return rows


def oracle(case, out):
    """returns (class, description) when the property fails on the implementation, else None"""
    e, cols = to_tuple(case["tree"]), case["types"]
    expected, overflow_rows, cast_err, eager_err = [], 0, False, False
    for row in logical_rows(case):
        try:
            expected.append(seval(e, row, cols))
        except Overflow:
            expected.append("OVERFLOW")
            overflow_rows += 1
        except TypeErr:
            expected.append("CASTERR")
            cast_err = True
        EAGER[0] = True
        try:
            seval(e, row, cols)
        except (Overflow, TypeErr):
            eager_err = True
        finally:
            EAGER[0] = False
    if eager_err and not overflow_rows and not cast_err:
        if "ok" not in out:
            return ("KF_C14_case_eager", "an overflow / out-of-range cast in a CASE branch that is not selected fails the statement (both branches are evaluated)")
    if "panic" in out:
        if "overflow" in out["panic"]:
            return ("KF_C14_overflow_panics" if overflow_rows else "KF_C14_overflow_under_null",
                    "integer overflow panics instead of being reported as an error" if overflow_rows
                    else "an overflow of the raw values under a NULL slot panics although no row overflows")
        return (None, f"evaluation panicked: {out['panic'][:100]}")
    if "err" in out:
        if overflow_rows or cast_err:
            return None
        if out["err"].startswith("no function") or out["err"].startswith("no cast"):
            return None     # an operand-type combination the kernels do not accept (checked by the correspondence)
        return (None, f"evaluation failed although every row has a defined value: {out['err'][:100]}")
    if "ok" not in out:
        return (None, f"unexpected harness output {json.dumps(out)[:100]}")
    if overflow_rows:
        return ("KF_C14_overflow_wraps", "an overflowing row produced a value")
    if cast_err:
        return (None, "an out-of-range cast produced a value instead of an error")
    a = out["ok"]
    got = [a["raw"][i] if a["valid"][i] else None for i in range(len(a["valid"]))]
    if len(got) != len(expected):
        return (None, f"result has {len(got)} rows for a batch of {len(expected)}")
    for i, (g, x) in enumerate(zip(got, expected)):
        if g != x:
            return (None, f"row {i}: got {g!r}, SQL semantics gives {x!r}")
    return None


def case_term(case, out):
    cols = []
    for c in case["cols"]:
        slots = clist(f"mk_slot {cbool(v)} {coq_raw(c['ty'], r)}" for v, r in zip(c["valid"], c["raw"]))
        cols.append(f"mk_arr {TYNAME[c['ty']]} {slots}")
    if "ok" in out:
        a = out["ok"]
        if a["ty"] not in TYNAME:
            return None
        slots = clist(f"mk_slot {cbool(v)} " + ("RU" if a["ty"] == "null" else coq_raw(a["ty"], r)) for v, r in zip(a["valid"], a["raw"]))
        obs = f"(OOk (mk_arr {TYNAME[a['ty']]} {slots}))"
    elif "panic" in out:
        obs = "OPanic"
    else:
        obs = "OErr"
    return f"mk_case {case['n']}%nat {clist(cols)} {coq_expr(to_tuple(case['tree']))} {obs}"


# ---- SQL level: the same expressions through parser, binder, (optional) constant folding -----------
def sql_expr(e, names):
    k = e[0]
    if k == "col":
        return names[e[1]]
    if k == "const":
        if e[1] == "bool":
            return "true" if e[2] else "false"
        if e[1] == "str":
            return "'" + e[2] + "'"
        return f"({e[2]})" if e[2] < 0 else str(e[2])
    if k == "arith":
        return f"({sql_expr(e[2], names)} {e[1]} {sql_expr(e[3], names)})"
    if k == "cmp":
        return f"({sql_expr(e[2], names)} {e[1]} {sql_expr(e[3], names)})"
    if k in ("and", "or"):
        return f"({sql_expr(e[1], names)} {k} {sql_expr(e[2], names)})"
    if k == "not":
        return f"(not {sql_expr(e[1], names)})"
    if k == "neg":
        return f"(-{sql_expr(e[1], names)})"
    if k == "isnull":
        return f"({sql_expr(e[1], names)} is null)"
    if k == "if":
        return f"(case when {sql_expr(e[1], names)} then {sql_expr(e[2], names)} else {sql_expr(e[3], names)} end)"
    if k == "in":
        return f"({sql_expr(e[1], names)} in ({', '.join(sql_expr(x, names) for x in e[2])}))"
    if k == "cast":
        return f"cast({sql_expr(e[2], names)} as {SQLTY[e[1]]})"
    if k == "concat":
        return f"({sql_expr(e[1], names)} || {sql_expr(e[2], names)})"


def gen_sql_case(rng, const_only):
    cols = [] if const_only else [rng.choice(["i32", "i32", "i64", "bool", "str"]) for _ in range(rng.randint(1, 3))]
    e, t = gen_expr(rng, cols, rng.choice(["bool", "int", "int"]), rng.randint(1, 3))

    def fix(x):   # literals whose SQL typing differs from the s-expression typing
        if isinstance(x, tuple):
            if x[0] == "const" and x[1] in ("i32", "i64") and x[2] in (-2147483648, 2147483648):
                return ("const", "i64", 3000000000 if x[2] > 0 else -3000000000)
            return tuple(fix(y) for y in x)
        if isinstance(x, list):
            return [fix(y) for y in x]
        return x
    e = fix(e)
    names = [f"c{i}" for i in range(len(cols))]
    steps = []
    rows = []
    if cols:
        decl = ", ".join(f"{n} {SQLTY[t2]}" for n, t2 in zip(names, cols))
        steps.append({"sql": f"create table t({decl})"})
        for _ in range(rng.randint(1, 6)):
            row = []
            for t2 in cols:
                if rng.random() < 0.25:
                    row.append(None)
                elif t2 == "bool":
                    row.append(rng.random() < 0.5)
                elif t2 == "str":
                    row.append(rng.choice(["", "a", "ab", "b"]))
                else:
                    b = BITS[t2]
                    row.append(rng.choice([0, 1, -1, 2, 3, (1 << (b - 1)) - 1, -(1 << (b - 1)), 7]))
            rows.append(row)
        lit = lambda v: "null" if v is None else ("true" if v is True else "false" if v is False else f"'{v}'" if isinstance(v, str) else str(v))
        steps.append({"sql": "insert into t values " + ", ".join("(" + ", ".join(lit(v) for v in r) + ")" for r in rows)})
    q = "select " + sql_expr(e, names) + (" from t" if cols else "")
    steps += [{"sql": q}, {"sql": "pragma disable_optimizer"}, {"sql": q}]
    return {"engine": "mem", "steps": steps, "tree": e, "types": cols, "rows": rows if cols else [[]], "q": q}


def sql_oracle(c, out):
    e, cols = to_tuple(c["tree"]), c["types"]
    expected, bad = [], None
    for row in c["rows"]:
        try:
            expected.append(seval(e, row, cols))
        except Overflow:
            bad = "overflow"
        except TypeErr:
            bad = "cast"
    res, inorder = [], []
    for o in (out[-3], out[-1]):
        if "ok" in o:
            vals = []
            for r in o["ok"][0]["rows"]:
                v = r[0]
                vals.append(None if v is None else v[1])
            res.append(sorted(map(repr, vals)))
            inorder.append(vals)
        else:
            res.append("panic:" + str(o.get("panic", "abort")) if "panic" in o or "abort" in o else "err")
    if bad:
        kinds = set()
        for row in c["rows"]:
            kinds |= error_kinds(e, row, cols)
        if any(isinstance(r, str) and r.startswith("panic") and "overflow" in r for r in res):
            # the statement has to fail; it fails through an integer overflow (of the expression as written, or of the form the
            # optimiser distributed / re-associated it into), which panics: the known finding
            return ("KF_C14_overflow_panics", f"overflow in `{c['q']}` panics (optimizer on/off: {res})")
        if any(isinstance(r, str) and r.startswith("panic") for r in res):
            return ("KF_C14_overflow_panics" if bad == "overflow" else None, f"{bad} in `{c['q']}` panics (optimizer on/off: {res})")
        if bad == "cast" and isinstance(res[0], list) and res[1] == "err":
            # the unoptimised statement reports the error; the optimiser may have dropped the erroring operand next to an absorbing
            # `false` / `true` (a value SQL allows): accepted when that reading yields exactly the value returned
            LAX[0] = True
            try:
                lax = sorted(repr(seval(e, row, cols)) for row in c["rows"])
            except (Overflow, TypeErr):
                lax = None
            finally:
                LAX[0] = False
            if lax == res[0]:
                return None
            LAX[0] = 2
            try:
                lax = sorted(repr(seval(e, row, cols)) for row in c["rows"])
            except (Overflow, TypeErr):
                lax = None
            finally:
                LAX[0] = False
            if lax == res[0]:
                return ("KF_C01_null_unsound_expr_rules", f"`{c['q']}`: a rewrite of the known-unsound family (mul-zero, sub-cancel, eq-eq) dropped an operand "
                                                          f"whose evaluation fails: optimizer on {res[0]}, off: error")
        if any(isinstance(r, list) for r in res):
            # e.g. the optimizer re-associates `-(c - (-1))` so that the intermediate overflow disappears
            return ("KF_C14_overflow_panics" if bad == "overflow" else None, f"{bad} in `{c['q']}` produced a value instead of an error: {res}")
        return None
    want = sorted(map(repr, expected))
    if isinstance(res[0], list) and res[0] != want and not isinstance(res[1], list) and len(inorder[0]) == len(expected) and \
            all(a == b or None in row for a, b, row in zip(inorder[0], expected, c["rows"])):
        # the optimised answer is wrong only on rows holding a NULL (and the unoptimised statement fails for its own known reason)
        return ("KF_C01_null_unsound_expr_rules", f"`{c['q']}` with the optimizer on returned {res[0]}, SQL semantics gives {want} (rows with NULL only)")
    if isinstance(res[0], list) and res[1] == want and res[0] != want and any(None in r for r in c["rows"]):
        return ("KF_C01_null_unsound_expr_rules", f"`{c['q']}` with the optimizer on returned {res[0]}, off (and SQL semantics) {want}")
    for which, r in zip(("optimizer on", "optimizer off"), res):
        if isinstance(r, str) and r.startswith("panic"):
            # vectorised CASE evaluates both branches: an overflow in the branch not taken panics too
            return ("KF_C14_overflow_panics" if "overflow" in r else None, f"`{c['q']}` panics ({which}): {r}")
        if r == "err":
            # the binder may reject combinations the kernel-level generator allows
            continue
        if r != want:
            return (None, f"`{c['q']}` ({which}) returned {r}, SQL semantics gives {want}")
    if isinstance(res[0], list) and isinstance(res[1], list) and res[0] != res[1]:
        return (None, f"`{c['q']}` differs with the optimizer (constant folding) on and off")
    return None


# ---- DOUBLE operands: outside the Coq model, checked against IEEE-754 semantics by the oracle only ----
import math
import struct


def f2bits(x):
    return struct.unpack("<Q", struct.pack("<d", x))[0]


def gen_float_case(rng):
    vals = [0.0, 1.5, -2.25, 3.0, 123456789.5, -1000000.25, 0.1, 7.0]
    n = rng.randint(1, 6)
    rows = [[None if rng.random() < 0.2 else rng.choice(vals), None if rng.random() < 0.2 else rng.choice(vals),
             None if rng.random() < 0.2 else rng.choice([0, 1, -1, 2, 7])] for _ in range(n)]
    op = rng.choice(["+", "-", "*", "/", "/", "%", "%", "=", "<", ">=", "<>"])
    a, b = rng.sample(["x", "y", "k"], 2)
    lit = rng.choice(["0.0", "2.5", "1.0", "0.5"])
    q = f"select {lit if a == 'lit' else a} {op} {lit if b == 'lit' else b} from f"
    fl = lambda v: "null" if v is None else repr(v)
    steps = [{"sql": "create table f(x double, y double, k int)"},
             {"sql": "insert into f values " + ", ".join(f"({fl(r[0])}, {fl(r[1])}, {fl(r[2])})" for r in rows)},
             {"sql": q}, {"sql": "pragma disable_optimizer"}, {"sql": q}]
    return {"steps": steps, "rows": rows, "a": a, "b": b, "op": op, "lit": float(lit), "q": q}


def float_oracle(c, out):
    def val(which, r):
        return {"x": r[0], "y": r[1], "k": r[2], "lit": c["lit"]}[which]
    want = []
    for r in c["rows"]:
        a, b = val(c["a"], r), val(c["b"], r)
        if a is None or b is None:
            want.append(None)
            continue
        both_int = c["a"] == "k" and c["b"] == "k"
        a2, b2 = (a, b) if both_int else (float(a), float(b))
        op = c["op"]
        if op in "/%" and b2 == 0:
            want.append(None)
        elif op == "+":
            want.append(a2 + b2)
        elif op == "-":
            want.append(a2 - b2)
        elif op == "*":
            want.append(a2 * b2)
        elif op == "/":
            want.append(a2 / b2)
        elif op == "%":
            want.append(math.fmod(a2, b2))
        else:
            want.append({"=": a2 == b2, "<": a2 < b2, ">=": a2 >= b2, "<>": a2 != b2}[op])
    if "ok" not in out[1]:
        return None          # the INSERT itself was rejected
    key = lambda v: "N" if v is None else (str(f2bits(v)) if isinstance(v, float) else repr(v))
    want_s = sorted(key(v) for v in want)
    for which, o in zip(("optimizer on", "optimizer off"), (out[-3], out[-1])):
        if "ok" not in o:
            if any(isinstance(v, float) and (math.isinf(v)) for v in want):
                continue
            return (None, f"`{c['q']}` ({which}) failed: {json.dumps(o)[:120]}")
        got = []
        for r in o["ok"][0]["rows"]:
            v = r[0]
            got.append("N" if v is None else (str(v[1]) if v[0] == "f64" else repr(v[1])))
        if sorted(got) != want_s:
            return (None, f"`{c['q']}` ({which}) returned {sorted(got)}, IEEE/SQL semantics gives {want_s} (rows {c['rows']})")
    return None


def run(R, only=None):
    R.prove()
    build_harness()
    n = 2500 if R.tier == "quick" else 20000
    cases = [gen_case(R.rng, R.tier) for _ in range(n)]
    outs = run_harness("c14", [{k: c[k] for k in ("cols", "n", "expr")} for c in cases], jobs=16)
    terms, usable, nontriv, ops = [], [], set(), {}
    for c, o in zip(cases, outs):
        if "parse" in o:
            raise CheckFailure("expression did not parse: " + c["expr"] + " " + o["parse"])
        r = oracle(c, o)
        if r:
            R.property_fails(r[0], "C14 " + r[1] + f" in {c['expr']}",
                             {"kind": "expr-batch", "case": {k: c[k] for k in ('cols', 'n', 'expr')}, "observed": o})
        t = case_term(c, o)
        if t:
            terms.append(t)
            usable.append(c)
        if c["n"] > 1 and any(not all(col["valid"]) for col in c["cols"]):
            nontriv.add(c["expr"] + str(c["n"]))
        ops[c["tree"][0]] = ops.get(c["tree"][0], 0) + 1
    failing = coq_eval("C14", HEADER, terms, per_file=50)
    for i, subs in sorted(failing.items()):
        c = usable[i]
        R.correspondence_broken("C14 veval = Evaluator::eval (" + ("result array differs" if 1 in subs else "ok/error/panic status differs") + ")",
                                json.dumps({k: c[k] for k in ("cols", "n", "expr")})[:2500])
        break
    # SQL level incl. constant folding
    sc = [gen_sql_case(R.rng, i % 2 == 0) for i in range(400 if R.tier == "quick" else 4000)]
    so = run_harness("sql", [{"engine": "mem", "steps": c["steps"]} for c in sc], jobs=16)
    for c, o in zip(sc, so):
        if not isinstance(o, list) or len(o) < 3:
            klass = "KF_C14_overflow_panics" if "overflow" in json.dumps(o) else None
            R.property_fails(klass, f"C14 `{c['q']}` aborts the process / harness: {json.dumps(o)[:150]}", {"kind": "sql-script", "case": c["steps"]})
            continue
        r = sql_oracle(c, o)
        if r:
            R.property_fails(r[0], "C14 " + r[1], {"kind": "sql-script", "case": c["steps"], "observed": [o[-3], o[-1]]})
    fc = [gen_float_case(R.rng) for _ in range(150 if R.tier == "quick" else 2000)]
    fo = run_harness("sql", [{"engine": "mem", "steps": c["steps"]} for c in fc], jobs=16)
    for c, o in zip(fc, fo):
        if not isinstance(o, list) or len(o) < 5:
            R.property_fails(None, f"C14 `{c['q']}` aborts: {json.dumps(o)[:150]}", {"kind": "sql-script", "case": c["steps"]})
            continue
        r = float_oracle(c, o)
        if r:
            R.property_fails(r[0], "C14 " + r[1], {"kind": "sql-script", "case": c["steps"], "observed": [o[-3], o[-1]]})
    R.coverage["double_cases"] = len(fc)
    # ---- string functions (outside the Coq model): SUBSTRING over strings with multi-byte characters, negative and zero start /
    #      length, column and constant operands, against a per-row reference
    STRS = [None, "", "a", "hello", "héllo", "日本語テキスト", "a😀b", "%_x", "ab%"]

    def substr_ref(a, b, c):
        if a is None or b is None or c is None:
            return None
        chars = len(a)
        start = b - 1 if b >= 0 else chars + b
        end = max(-2**31, min(2**31 - 1, start + c))
        if start > end:
            start, end = end, start
        skip = max(start, 0)
        take = max(end - skip, 0)
        return a[skip:skip + take]
    stc = []
    for i in range(40 if R.tier == "quick" else 400):
        rng = R.rng
        rows = [(rng.choice(STRS), rng.choice([None, -7, -3, -2, -1, 0, 1, 2, 3, 9]), rng.choice([None, -2, 0, 1, 2, 5, 100])) for _ in range(rng.randint(1, 70))]
        steps = [{"sql": "create table st(s varchar, a int, b int)"}]
        for part in (rows[: len(rows) // 2], rows[len(rows) // 2:]):
            if part:
                steps.append({"sql": "insert into st values " + ", ".join("(" + ", ".join("null" if v is None else (f"'{v}'" if isinstance(v, str) else str(v)) for v in r) + ")" for r in part)})
        kind = rng.choice(["col", "col", "const-start", "const-all"])
        if kind == "col":
            q, want = "select substring(s from a for b) from st", [substr_ref(*r) for r in rows]
        elif kind == "const-start":
            k, n = rng.choice([-3, -2, -1, 1, 2]), rng.choice([1, 2, 3])
            q, want = f"select substring(s from {k} for {n}) from st", [substr_ref(r[0], k, n) for r in rows]
        else:
            v, k, n = rng.choice([x for x in STRS if x]), rng.choice([-3, -2, -1, 1, 2]), rng.choice([1, 2, 3])
            q, want = f"select substring('{v}' from {k} for {n}) from st", [substr_ref(v, k, n) for _ in rows]
        steps += [{"sql": q}, {"sql": "pragma disable_optimizer"}, {"sql": q}]
        stc.append({"steps": steps, "q": q, "want": want})
    sto = run_harness("sql", [{"engine": "mem", "steps": c["steps"]} for c in stc], jobs=16)
    for c, o in zip(stc, sto):
        rep = {"kind": "sql-script", "case": c["steps"]}
        if not isinstance(o, list) or len(o) < len(c["steps"]):
            R.property_fails(None, f"C14 `{c['q']}` aborts: {json.dumps(o)[-150:]}", rep)
            continue
        for which, x in (("optimizer on", o[-3]), ("optimizer off", o[-1])):
            if "ok" not in x:
                R.property_fails(None, f"C14 `{c['q']}` ({which}) failed: {json.dumps(x)[:150]}", rep)
                break
            got = [None if r[0] is None else r[0][1] for ch in x["ok"] for r in ch["rows"]]
            if got != c["want"]:
                bad = [(g, w) for g, w in zip(got, c["want"]) if g != w][:2]
                R.property_fails(None, f"C14 `{c['q']}` ({which}): rows differ from the per-row reference, e.g. got / expected {bad}", rep)
                break
    R.coverage["string_function_cases"] = len(stc)
    R.coverage.update({
        "evaluations": len(cases) + len(sc), "distinct_nontrivial": len(nontriv),
        "rule": "random typed expression trees (arithmetic, comparison, AND/OR/NOT, IS NULL, CASE, IN list, CAST, ||) over 1-4 "
                "columns of bool/int16/int32/int64/string arrays built with chosen raw content under NULL slots, batch lengths "
                "around the 64-bit word boundary; non-trivial = batch of >= 2 rows with at least one NULL slot; plus SQL-level "
                "queries with the optimizer (constant folding) on and off",
        "samples": [{k: cases[i][k] for k in ("expr", "n", "types")} for i in range(3)],
        "root_operator_distribution": ops, "sql_cases": len(sc),
        "model_vs_impl_disagreements": len(failing),
    })
    R.assumptions += [
        "dev-profile arithmetic (overflow panics); the release profile (wrapping) is not run by the quick tier",
        "DOUBLE / DECIMAL / DATE operands, LIKE, EXTRACT and the string functions are outside the model (not generated)",
    ]


def replay(R, path):
    run(R)
    return R.finish()
