"""C01 — ground instances of the modelled plan rules, run by the real executors and by the plan semantics.

For every plan rule that has a meaning in Model/PlanSem.v (the translator's list) the pattern
variables are bound to small generated tables (scans), conditions, order keys, limits and join types;
both sides are executed through executor::build (harness `plan` step, optimiser not involved) and
evaluated by `ppev` inside Coq (Corr/C01.v):
    executor(lhs) = model(lhs), executor(rhs) = model(rhs)      (the semantics is that of the executors)
    executor(lhs) = executor(rhs)                               (the rule itself, on the real operators)
"""
import json
import re

from .common import *  # noqa: F401,F403
from .execlib import scan_json, setup_steps, out_rows_term, dv_term

HEADER = "From RL Require Import Corr.C01.\nOpen Scope Z_scope.\n"
REL_VARS = ["?left", "?mid", "?right", "?child"]
ORDERED_OPS = {"order", "topn", "limit"}
CMP = {"=": 0, "<>": 1, "<": 2, "<=": 3, ">": 4, ">=": 5}


def cid(t, i):
    return t * 10 + i


def vars_of(x, acc):
    if isinstance(x, str):
        if x.startswith("?"):
            acc.add(x)
    else:
        for a in x[1]:
            vars_of(a, acc)
    return acc


def has_op(x, ops):
    return not isinstance(x, str) and (x[0] in ops or any(has_op(a, ops) for a in x[1]))


def out_cols(x, rels, ty):
    """columns produced by a (sub)pattern; records in `scopes` which columns every expression variable may mention"""
    if isinstance(x, str):
        return rels[x] if x in rels else []
    op, a = x
    if op in ("filter",):
        return out_cols(a[1], rels, ty)
    if op in ("limit",):
        return out_cols(a[2], rels, ty)
    if op in ("order", "window", "proj"):
        return out_cols(a[1], rels, ty)
    if op == "topn":
        return out_cols(a[3], rels, ty)
    if op == "empty":
        return out_cols(a[0], rels, ty)
    if op == "join":
        t = ty if a[0] == "?type" else a[0]
        l, r = out_cols(a[2], rels, ty), out_cols(a[3], rels, ty)
        return l if t in ("semi", "anti") else l + r
    if op == "hashjoin":
        t = ty if a[0] == "?type" else a[0]
        l, r = out_cols(a[4], rels, ty), out_cols(a[5], rels, ty)
        return l if t in ("semi", "anti") else l + r
    return []


def scopes_of(x, rels, ty, sc):
    """for every expression / key / projection variable: the columns in scope at each occurrence (intersected)"""
    if isinstance(x, str):
        return
    op, a = x

    def note(e, cols):
        for v in vars_of(e, set()):
            if v not in rels and v != "?type":
                sc[v] = [c for c in sc.get(v, cols) if c in cols]
    if op == "filter":
        note(a[0], out_cols(a[1], rels, ty))
    elif op == "order":
        note(a[0], out_cols(a[1], rels, ty))
    elif op == "topn":
        note(a[2], out_cols(a[3], rels, ty))
    elif op == "proj":
        note(a[0], out_cols(a[1], rels, ty))
    elif op == "join":
        note(a[1], out_cols(a[2], rels, ty) + out_cols(a[3], rels, ty))
    elif op == "hashjoin":
        note(a[1], out_cols(a[4], rels, ty) + out_cols(a[5], rels, ty))
        note(a[2], out_cols(a[4], rels, ty))         # left keys: columns of the left input only
        note(a[3], out_cols(a[5], rels, ty))
    for y in a:
        scopes_of(y, rels, ty, sc)


def gen_cond(rng, cols):
    """(json, coq term) of a condition over the given (table, column) pairs"""
    if not cols or rng.random() < 0.1:
        return "true", "CTrue"
    atoms = []
    for _ in range(rng.choice([1, 1, 2])):
        (t, i) = rng.choice(cols)
        if len(cols) > 1 and rng.random() < 0.5:
            (u, j) = rng.choice([c for c in cols if c != (t, i)])
            op = rng.choice(["=", "=", "<", ">="])
            atoms.append(([op, {"c": [t, i]}, {"c": [u, j]}], f"(CCmp {CMP[op]} (CCol {cid(t, i)}) (CCol {cid(u, j)}))"))
        else:
            op, k = rng.choice(list(CMP)), rng.choice([0, 1, 2])
            atoms.append(([op, {"c": [t, i]}, str(k)], f"(CCmp {CMP[op]} (CCol {cid(t, i)}) (CInt {k}))"))
    j, c = atoms[0]
    for j2, c2 in atoms[1:]:
        j, c = ["and", j, j2], f"(CAnd {c} {c2})"
    return j, c


def instantiate(rng, name, lhs, rhs, conds):
    """a binding of the rule's variables: (json substitution, coq env entries, tables, ordered?) or None"""
    vs = vars_of(lhs, set()) | vars_of(rhs, set())
    ordered = has_op(lhs, ORDERED_OPS) or has_op(rhs, ORDERED_OPS)
    ty = rng.choice(["inner", "left_outer", "semi", "anti"]) if "?type" in vs else None
    rels, tables, jsub, env = {}, [], {}, []
    for v in REL_VARS:
        if v in vs:
            t = len(tables)
            n = rng.randint(0, 4)
            if ordered:
                # every column a permutation without NULL: any order key is total, LIMIT / top-N keep determined rows
                a, b = rng.sample(range(6), n), rng.sample(range(6), n)
                rows = [[x, y] for x, y in zip(a, b)]
            else:
                rows = [[rng.choice([None, 0, 1, 2]), rng.choice([None, 0, 1, 2])] for _ in range(n)]
            cut = rng.randint(0, n)
            chunks = [c for c in (rows[:cut], rows[cut:]) if c]
            tables.append((f"t{t}", ["i32", "i32"], chunks))
            rels[v] = [(t, 0), (t, 1)]
            jsub[v] = scan_json(t, 2)
            env.append((v, f"rel [{cid(t, 0)}%nat; {cid(t, 1)}%nat] {clist(clist(dv_term(x, 'i32') for x in r) for r in rows)}"))
    sc = {}
    scopes_of(lhs, rels, ty, sc)
    scopes_of(rhs, rels, ty, sc)
    for c, args in conds:                 # not_depend_on(e, p): no column of p
        if c == "not_depend_on" and args[0] in sc:
            sc[args[0]] = [x for x in sc[args[0]] if x not in rels.get(args[1], [])]
    if ty:
        jsub["?type"] = ty
        env.append(("?type", f'MLit "{ty}"'))
    # HashJoinExecutor takes no residual condition (build asserts the literal true); the semi / anti variants do
    forced_true = set()

    def hash_conds(x):
        if isinstance(x, str):
            return
        if x[0] == "hashjoin" and isinstance(x[1][1], str) and x[1][1].startswith("?"):
            t = ty if x[1][0] == "?type" else x[1][0]
            if t not in ("semi", "anti"):
                forced_true.add(x[1][1])
        for y in x[1]:
            hash_conds(y)
    hash_conds(lhs)
    hash_conds(rhs)
    nk = rng.randint(1, 2)
    for v in sorted(vs):
        if v in rels or v == "?type":
            continue
        cols = sc.get(v, [])
        if v in forced_true:
            jsub[v] = "true"
            env.append((v, "ex CTrue"))
            continue
        if re.fullmatch(r"\?[lr]\d", v):
            # a join key: a column of the one input it may read (or a constant when it may read none)
            if cols:
                t, i = rng.choice(cols)
                jsub[v] = {"c": [t, i]}
                env.append((v, f"ex (CCol {cid(t, i)})"))
            else:
                k = rng.choice([0, 1, 2])
                jsub[v] = str(k)
                env.append((v, f"ex (CInt {k})"))
            continue
        if v in ("?lkeys", "?rkeys"):
            if not cols:
                return None
            ks = [rng.choice(cols) for _ in range(nk)]
            jsub[v] = ["list"] + [{"c": [t, i]} for t, i in ks]
            env.append((v, "MList " + clist(f"ex (CCol {cid(t, i)})" for t, i in ks)))
            continue
        if v in ("?limit",):
            k = rng.choice(["null", "0", "1", "2", "3"])
            jsub[v] = k
            env.append((v, "ex CNull" if k == "null" else f"ex (CInt {k})"))
        elif v == "?offset":
            k = rng.choice(["0", "0", "1", "2"])
            jsub[v] = k
            env.append((v, f"ex (CInt {k})"))
        elif v == "?keys":
            # at least one key: with no key every order is sorted, and which rows a top-N keeps is the executor's choice
            ks = [(rng.choice(cols), rng.random() < 0.4) for _ in range(rng.randint(1, 2))] if cols else []
            jsub[v] = ["list"] + [(["desc", {"c": [t, i]}] if d else {"c": [t, i]}) for (t, i), d in ks]
            env.append((v, "keys " + clist(f"(CCol {cid(t, i)}, {cbool(d)})" for (t, i), d in ks)))
        elif v == "?proj":
            ps = [rng.choice(cols) for _ in range(rng.randint(1, 3))] if cols else []
            if not ps:
                return None
            jsub[v] = ["list"] + [{"c": [t, i]} for t, i in ps]
            env.append((v, "MList " + clist(f"ex (CCol {cid(t, i)})" for t, i in ps)))
        else:
            j, c = gen_cond(rng, cols)
            jsub[v] = j
            env.append((v, f"ex {c}"))
    return jsub, env, tables, ordered, ty


def subst_json(x, jsub):
    if isinstance(x, str):
        return jsub.get(x, x)
    return [x[0]] + [subst_json(a, jsub) for a in x[1]]


def run(R, TR, info, src):
    """TR: the translator module; info: what it generated; src: name -> parsed source rule"""
    names = list(info.get("plan_sound", [])) + list(info.get("plan_refuted", {}))
    per_rule = 12 if R.tier == "quick" else 150
    insts = []
    for name in names:
        _, _, lhs_s, rhs_s, conds = src[name]
        lhs, rhs = TR.parse_sx(lhs_s), TR.parse_sx(rhs_s)
        if has_op(lhs, {"window"}) or has_op(rhs, {"window"}):
            continue            # the executor has no window operator without functions: the rule exists to remove it
        for _ in range(per_rule):
            b = instantiate(R.rng, name, lhs, rhs, conds)
            if b is not None:
                insts.append((name, lhs, rhs, b))
    jobs = []
    for name, lhs, rhs, (jsub, env, tables, ordered, ty) in insts:
        jobs.append({"engine": "mem", "steps": setup_steps(tables) + [{"plan": subst_json(lhs, jsub)}, {"plan": subst_json(rhs, jsub)}]})
    outs = run_harness("sql", jobs, jobs=16)
    plan_allowed = {r: f["class"] for f in known_findings("C01") if f.get("status") == "open" for r in f.get("rules", [])
                    if f.get("class") != "KF_C01_null_unsound_expr_rules"}
    terms, owner = [], []
    stats = {"instances": len(insts), "sides_compared_with_the_model": 0, "rule_instances_differing_on_the_executors": 0, "per_rule": {}}
    for (name, lhs, rhs, (jsub, env, tables, ordered, ty)), j, o in zip(insts, jobs, outs):
        rep = {"kind": "sql-script", "case": j, "rule": name}
        if not isinstance(o, list) or len(o) < len(j["steps"]):
            R.property_fails(None, f"C01 instance of plan rule {name} aborted: {json.dumps(o[-1] if isinstance(o, list) and o else o)[:200]}", rep)
            continue
        res = []
        for side, pat, x in (("lhs", lhs, o[-2]), ("rhs", rhs, o[-1])):
            rows = x["ok"][0]["rows"] if "ok" in x else None
            res.append(rows)
            obs = "None" if rows is None else f"(Some {out_rows_term(rows)})"
            envt = clist(f'("{v}", {t})' for v, t in env)
            terms.append(f"mk_case {envt} {TR.sx_coq(pat)} {cbool(ordered)} {obs}")
            owner.append((name, side, j))
            stats["sides_compared_with_the_model"] += 1
        stats["per_rule"][name] = stats["per_rule"].get(name, 0) + 1
        a, b = res
        if a is None or b is None:
            if (a is None) != (b is None):
                R.property_fails(plan_allowed.get(name), f"C01 instance of plan rule {name}: one side executes, the other fails ({json.dumps(o[-2])[:80]} / {json.dumps(o[-1])[:80]})", rep)
            continue
        ca = [json.dumps(r) for r in a]
        cb = [json.dumps(r) for r in b]
        if (ca != cb) if ordered else (sorted(ca) != sorted(cb)):
            stats["rule_instances_differing_on_the_executors"] += 1
            R.property_fails(plan_allowed.get(name),
                             f"C01 plan rule {name}{' @ ' + ty if ty else ''}: the two sides of an instance return different rows on the executors: "
                             f"{json.dumps(a)[:120]} vs {json.dumps(b)[:120]}", rep)
    failing = coq_eval("C01p", HEADER, terms, per_file=100)
    if failing:
        i = sorted(failing)[0]
        name, side, j = owner[i]
        R.correspondence_broken(f"C01 plan semantics = executors ({name}, {side}): " +
                                {1: "the model builds the plan, the executor fails", 2: "the executor runs a plan without a meaning in the model",
                                 3: "rows differ"}[failing[i][0]], json.dumps({"case": j, "term": terms[i]})[:4000])
    stats["model_vs_executor_disagreements"] = len(failing)
    return stats
