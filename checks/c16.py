"""C16 — declared types and constraints hold for every stored and returned value.

  (i)   proofs Props/C16.v (kernel variant = static type on all operator x type x type combinations;
        INSERT stores the declared type losslessly or fails; NOT NULL respected);
  (ii)  correspondence Corr/C16.v: the typing tables against analyze_type and the kernels,
        EXHAUSTIVELY (every operator, every pair of the 13 types), and the insert conversion;
  (iii) oracle: static types (TypeSchemaAnalysis of the executed plan, hook verif_static_types) vs
        the variants of the arrays Database::run returns, for generated queries on both engines;
        INSERT forms (VALUES, SELECT source, column subsets, implicit casts, boundary values).
"""
import json

from .common import *  # noqa: F401,F403
from . import c02

HEADER = "From RL Require Import Corr.C16.\nOpen Scope Z_scope.\n"
TYPES = [("DNull", None, None), ("DBool", "q", "boolean"), ("DI16", "k", "smallint"), ("DI32", "a", "int"), ("DI64", "b", "bigint"),
         ("DF64", "f", "double"), ("DDec", "d", "decimal(10,2)"), ("DDate", "dt", "date"), ("DTs", "ts", "timestamp"),
         ("DTsTz", "tz", "timestamptz"), ("DIv", "iv", "interval"), ("DStr", "s", "varchar"), ("DBlob", "bl", "blob")]
KIND = {"Null": "DNull", "Bool": "DBool", "Int16": "DI16", "Int32": "DI32", "Int64": "DI64", "Float64": "DF64", "Decimal": "DDec", "Date": "DDate",
        "Timestamp": "DTs", "TimestampTz": "DTsTz", "Interval": "DIv", "String": "DStr", "Blob": "DBlob"}
OPS = [("+", "BAdd"), ("-", "BSub"), ("*", "BMul"), ("/", "BDiv"), ("%", "BMod"), ("=", "BCmp"), ("<>", "BCmp"), ("<", "BCmp"), ("<=", "BCmp"),
       (">", "BCmp"), (">=", "BCmp"), ("and", "BAnd"), ("or", "BOr"), ("||", "BConcat"), ("like", "BLike")]
ROW = "(true, 3, 7, 9, 1.5, 2.25, date '2020-02-02', timestamp '2020-02-02 01:02:03', '2020-02-02 01:02:03', interval '2' day, 'x', 'ab')"


def static_kind(t):
    t = t.split("(")[0]
    return KIND.get(t, t)


def table_cases():
    cols = ", ".join(f"{c} {ty}" for _, c, ty in TYPES if c)
    setup = [{"sql": f"create table t({cols})"}, {"sql": f"create table u({cols})"},
             {"sql": f"insert into t values {ROW}"}, {"sql": f"insert into u values {ROW}"},
             {"sql": "insert into t values (" + ", ".join("null" for _ in TYPES[1:]) + ")"},
             # the tables are about the binder's analysis and the kernels: no rewrite in between
             {"sql": "pragma disable_optimizer"}]
    qs = []
    for sym, op in OPS:
        for ta, ca, _ in TYPES:
            for tb, cb, _ in TYPES:
                if ca is None and cb is None:
                    continue            # constant expressions are folded by the optimiser before any kernel runs
                l = f"t.{ca}" if ca else "null"
                r = f"u.{cb}" if cb else "null"
                qs.append((op, ta, tb, f"select {l} {sym} {r} from t, u"))
    return setup, qs


def run(R, only=None):
    R.prove()
    build_harness()
    # ---- A. exhaustive typing tables ---------------------------------------------------------------
    setup, qs = table_cases()
    nb = 16
    batches = [qs[i::nb] for i in range(nb)]
    outs = run_harness("sql", [{"engine": "mem", "steps": setup + [{"typed": q[3], "optimize": False} for q in b]} for b in batches], jobs=16)
    terms, tmeta = [], []
    nokernel = 0
    for b, o in zip(batches, outs):
        if not isinstance(o, list) or len(o) < len(setup) + len(b):
            R.property_fails(None, f"C16 the typing-table script aborted: {json.dumps(o[-1] if isinstance(o, list) and o else o)[:200]}",
                             {"kind": "sql-script", "case": {"engine": "mem", "steps": setup + [{"typed": q[3]} for q in b]}})
            continue
        for (op, ta, tb, q), x in zip(b, o[len(setup):]):
            st = x.get("static")
            stat = static_kind(st[0]) if isinstance(st, list) and st else None
            ran = stat is not None
            rt = None
            if "ok" in x:
                kinds = {k for ch in x["runtime"] for k in ch}
                rt = KIND.get(sorted(kinds)[0]) if len(kinds) == 1 else "MIXED"
                if rt == "MIXED" or any(n != 1 for n in x["arity"]):
                    R.property_fails(None, f"C16 `{q}` returns chunks of different shape: kinds {x['runtime']}, arity {x['arity']}", {"kind": "sql-script", "case": {"engine": "mem", "steps": setup + [{"typed": q}]}})
                    continue
                if stat is not None and rt != stat:
                    R.property_fails(None, f"C16 `{q}`: the plan's static type is {st[0]}, the returned array is {sorted(kinds)[0]}",
                                     {"kind": "sql-script", "case": {"engine": "mem", "steps": setup + [{"typed": q}]}})
            elif "panic" in x:
                R.property_fails("KF_C14_overflow_panics" if "overflow" in json.dumps(x) else None, f"C16 `{q}` panics: {json.dumps(x)[:160]}",
                                 {"kind": "sql-script", "case": {"engine": "mem", "steps": setup + [{"typed": q}]}})
                continue
            elif ran:
                nokernel += 1
            terms.append(f"CBin {op} {ta} {tb} {copt(stat, str)} {cbool(ran)} {copt(rt, str)}")
            tmeta.append(q)
    # ---- B. generated queries: static types vs returned arrays, both engines -------------------------
    nq = 400 if R.tier == "quick" else 6000
    cases = []
    for i in range(nq):
        a_b, b_b = c02.gen_db(R.rng)
        q, ks, tags = c02.gen_query(R.rng)
        q = q[0] if isinstance(q, tuple) else q
        steps = [{"sql": "create table a(x int, y int, s varchar)"}, {"sql": "create table b(x int, z int)"}]
        for batch in a_b:
            steps.append({"sql": "insert into a values " + ", ".join("(" + ", ".join(c02.lit(v) for v in r) + ")" for r in batch)})
        for batch in b_b:
            steps.append({"sql": "insert into b values " + ", ".join("(" + ", ".join(c02.lit(v) for v in r) + ")" for r in batch)})
        steps.append({"typed": q})
        cases.append({"engine": R.rng.choice(["mem", "disk"]), "steps": steps, "q": q})
    # typed expression queries over the wide table
    setup2 = [setup[0], setup[2], setup[4]]
    exprs = ["a + b", "k * a", "f / 2", "d * d", "d + a", "f * d", "a > f", "s || s", "not q", "q and a > 1", "case when q then a else b end",
             "count(*)", "count(s)", "sum(a)", "sum(k)", "sum(b)", "sum(f)", "sum(d)", "min(dt)", "max(s)", "avg(a)", "avg(f)", "avg(d)", "min(ts)",
             "cast(a as bigint)", "cast(a as varchar)", "cast(s as int)", "cast(f as int)", "cast(a as double)", "cast(k as decimal(5,1))", "a is null",
             "extract(year from dt)", "substring(s, 1, 1)", "dt + iv", "coalesce(a, 0)", "nullif(a, 7)", "a in (1, 7)", "a between 1 and 9", "-a", "-f"]
    for i in range(60 if R.tier == "quick" else 400):
        n = R.rng.randint(1, 4)
        sel = R.rng.sample(exprs, n)
        agg = any(e.split("(")[0] in ("count", "sum", "min", "max", "avg") for e in sel)
        if agg:
            sel = [e for e in sel if e.split("(")[0] in ("count", "sum", "min", "max", "avg")]
        q = f"select {', '.join(sel)} from t" + (R.rng.choice(["", " where a is not null", " group by q"]) if agg else R.rng.choice(["", " where a > 0", " order by a", " limit 1"]))
        cases.append({"engine": R.rng.choice(["mem", "disk"]), "steps": setup2 + [{"typed": q}], "q": q})
    outs = run_harness("sql", [{"engine": c["engine"], "steps": c["steps"]} for c in cases], jobs=16)
    compared = 0
    for c, o in zip(cases, outs):
        x = o[-1] if isinstance(o, list) and len(o) == len(c["steps"]) else None
        if x is None or "ok" not in x or not isinstance(x.get("static"), list):
            continue                 # failing statements are C15 / C17's subject
        compared += 1
        st = [static_kind(t) for t in x["static"]]
        rep = {"kind": "sql-script", "case": {"engine": c["engine"], "steps": c["steps"]}}
        for ch, ar in zip(x["runtime"], x["arity"]):
            if ar != len(st):
                R.property_fails(None, f"C16 `{c['q']}` ({c['engine']}): a chunk has {ar} columns, the select list has {len(st)}", rep)
                break
            got = [KIND.get(k, k) for k in ch]
            if got != st:
                R.property_fails(None, f"C16 `{c['q']}` ({c['engine']}): static types {x['static']} but the arrays are {ch}", rep)
                break
    # ---- C. INSERT --------------------------------------------------------------------------------------
    targets = [("DI16", "smallint", 16), ("DI32", "int", 32), ("DI64", "bigint", 64), ("DStr", "varchar", None), ("DBool", "boolean", None)]
    ins, imeta = [], []
    pool_int = [0, 1, -1, 7, 32767, 32768, -32768, -32769, 2147483647, 2147483648, -2147483648, -2147483649, 4294967296, 4294967297, -8589934587,
                9223372036854775807, 4294967296 * 5 + 12]
    for engine in ("mem", "disk"):
        for tname, tsql, w in targets:
            for null_kind in ("", " not null", " primary key"):
                if null_kind == " primary key" and tsql in ("boolean",):
                    continue
                vals = [("null", "VNull", None)]
                for z in (pool_int if R.tier == "thorough" else R.rng.sample(pool_int, 8)):
                    src = "DI32" if -2 ** 31 <= z < 2 ** 31 else "DI64"
                    vals.append((str(z), f"VInt {src} {cz(z)}", z))
                vals += [("'hello'", f"VStr {clist(map(str, b'hello'))}", "hello"), ("true", "VBool true", True)]
                for lit, term, pyv in vals:
                    form = R.rng.choice(["values", "select", "subset"])
                    steps = [{"sql": f"create table t(c {tsql}{null_kind}, o int)"}]
                    if form == "values":
                        steps.append({"sql": f"insert into t values ({lit}, 1)"})
                    elif form == "subset":
                        steps.append({"sql": f"insert into t(c) values ({lit})"})
                    else:
                        steps += [{"sql": "create table src(v " + ("bigint" if term.startswith("VInt") else "varchar" if term.startswith("VStr") else "boolean" if term.startswith("VBool") else "int") + ")"},
                                  {"sql": f"insert into src values ({lit})"}]
                        steps.append({"sql": "insert into t select v, 1 from src"})
                    steps.append({"typed": "select c from t"})
                    ins.append({"engine": engine, "steps": steps})
                    imeta.append((tname, null_kind != "", term, pyv, lit, form, tsql + null_kind))
        # omitted NOT NULL column, lossy sources
        for decl, stmt, klass in [("c int not null, o int", "insert into t(o) values (30)", None), ("c int primary key, o int", "insert into t(o) values (30)", None),
                                  ("c int, o int", "insert into t values (1.5, 1)", "KF_C16_lossy_insert"), ("c int, o int", "insert into t values (2.5, 1)", "KF_C16_lossy_insert"),
                                  ("c decimal(5,2), o int", "insert into t values (1.239, 1)", "KF_C16_limits_not_enforced"),
                                  ("c decimal(5,2), o int", "insert into t values (12345.678, 1)", "KF_C16_limits_not_enforced"),
                                  ("c varchar(2), o int", "insert into t values ('abcdef', 1)", "KF_C16_limits_not_enforced"),
                                  ("c smallint, o int", "insert into t values (1e10, 1)", None), ("c int, o int", "insert into t values ('12x', 1)", None)]:
            ins.append({"engine": engine, "steps": [{"sql": f"create table t({decl})"}, {"sql": stmt}, {"typed": "select c from t"}]})
            imeta.append(("must-fail", True, None, None, stmt, klass, decl))
    outs = run_harness("sql", ins, jobs=16)
    for c, m, o in zip(ins, imeta, outs):
        rep = {"kind": "sql-script", "case": c}
        if not isinstance(o, list) or len(o) < len(c["steps"]):
            R.property_fails(None, f"C16 an INSERT script aborted: {json.dumps(o)[-200:]}", rep)
            continue
        ok = "ok" in o[-2]
        sel = o[-1]
        stored = [r[0] for r in sel["ok"][0]["rows"]] if "ok" in sel else None
        if m[0] == "must-fail":
            stmt, klass, decl = m[4], m[5], m[6]
            if ok:
                R.property_fails(klass, f"C16 ({c['engine']}) table t({decl}): `{stmt}` succeeds and stores {json.dumps(stored)}: the value is not the inserted one / violates the declaration", rep)
            elif stored:
                R.property_fails(None, f"C16 ({c['engine']}) the failed `{stmt}` left rows behind: {json.dumps(stored)}", rep)
            continue
        tname, notnull, term, pyv, lit, form, decl = m
        if "panic" in o[-2]:
            R.property_fails(None, f"C16 ({c['engine']}) inserting {lit} into a {decl} column ({form}) panics: {json.dumps(o[-2])[:150]}", rep)
            continue
        if ok:
            if stored is None or len(stored) != 1:
                R.property_fails(None, f"C16 ({c['engine']}) inserting {lit} into {decl} ({form}) was acknowledged but the table holds {json.dumps(stored)}", rep)
                continue
            v = stored[0]
            kinds = {k for ch in sel["runtime"] for k in ch}
            if {KIND.get(k) for k in kinds} != {tname}:
                R.property_fails(None, f"C16 ({c['engine']}) column declared {decl} is returned as {sorted(kinds)}", rep)
            got = None if v is None else v[1]
            lossless = got == pyv
            klass = None
            if isinstance(pyv, bool) is False and isinstance(pyv, int):
                if tname == "DStr":
                    lossless = got == str(pyv)                      # printed number
                elif tname == "DBool":
                    lossless = pyv in (0, 1) and got == bool(pyv)   # any other number -> true is not the inserted value
                    klass = "KF_C16_lossy_insert"
            elif isinstance(pyv, bool):
                if tname == "DStr":
                    lossless = got == ("true" if pyv else "false")
                elif tname in ("DI16", "DI32", "DI64"):
                    lossless = got == int(pyv)
            if not lossless or (v is None and notnull):
                R.property_fails(klass, f"C16 ({c['engine']}) inserting {lit} into {decl} ({form}) stored {json.dumps(v)}", rep)
            sv = "VNull" if v is None else (f"VInt {tname} {cz(v[1])}" if tname in ("DI16", "DI32", "DI64") else
                                            f"VStr {clist(map(str, v[1].encode()))}" if tname == "DStr" else f"VBool {cbool(v[1])}")
        else:
            sv = "VNull"
            if stored:
                R.property_fails(None, f"C16 ({c['engine']}) the failed insert of {lit} into {decl} left {json.dumps(stored)} behind", rep)
        in_model = term is not None and (term.startswith("VNull") or (term.startswith("VInt") and tname in ("DI16", "DI32", "DI64"))
                                         or (term.startswith("VStr") and tname == "DStr") or (term.startswith("VBool") and tname == "DBool"))
        if in_model:
            terms.append(f"CIns {tname} {cbool(not notnull)} ({term}) {cbool(ok)} ({sv})")
            tmeta.append(f"insert {lit} into {decl} ({form}, {c['engine']}): {'ok' if ok else 'refused'}, stored {sv}")
    failing = coq_eval("C16", HEADER, terms, per_file=400)
    if failing:
        i = sorted(failing)[0]
        names = {1: "static type table (analyze_type) = model", 2: "kernel result variant = model", 3: "INSERT conversion = model (stored value)", 4: "INSERT accepted a value the model refuses"}
        R.correspondence_broken(f"C16 {names.get(failing[i][0], failing[i][0])}: {tmeta[i]}", tmeta[i])
    # ---- INSERT with a column list: every value must land in the column it names (converted to that column's type), whatever the
    #      order of the list; unnamed columns become NULL
    import itertools
    cl_jobs, cl_meta = [], []
    vals = {"a": ("11", 11), "b": ("'22'", 22), "c": ("33", "33")}        # literal, value as stored in the named column
    lists = [list(p) for p in itertools.permutations("abc")] + [["a", "c"], ["c", "a"], ["b"], ["c", "b"]]
    for engine in ("mem", "disk"):
        for cols in lists:
            for form in ("values", "select"):
                src = ", ".join(vals[c][0] for c in cols)
                stmt = f"insert into t({', '.join(cols)}) " + (f"values ({src})" if form == "values" else f"select {src}")
                cl_jobs.append({"engine": engine, "steps": [{"sql": "create table t(a int, b bigint, c varchar)"}, {"sql": stmt}, {"sql": "select a, b, c from t"}]})
                cl_meta.append((engine, stmt, [vals[c][1] if c in cols else None for c in "abc"]))
    for (engine, stmt, want), j, o in zip(cl_meta, cl_jobs, run_harness("sql", cl_jobs, jobs=16)):
        rep = {"kind": "sql-script", "case": j}
        if not isinstance(o, list) or len(o) < 3 or "ok" not in o[1] or "ok" not in o[2]:
            R.property_fails(None, f"C16 ({engine}) `{stmt}` failed: {json.dumps(o)[-200:]}", rep)
            continue
        got = [[None if v is None else v[1] for v in r] for r in o[2]["ok"][0]["rows"]]
        if got != [want]:
            R.property_fails(None, f"C16 ({engine}) `{stmt}` stored {got}, the named columns should hold {[want]}", rep)
    R.coverage["column_list_inserts"] = len(cl_jobs)
    R.coverage.update({
        "evaluations": len(terms) + compared, "distinct_nontrivial": len(terms),
        "rule": "A: every binary operator (15 symbols, 10 classes) x every ordered pair of the 13 data types (NULL as a literal; two different tables so "
                "that no same-column rewrite applies) = 2520 typed queries: static type / bind error, returned variant / kernel error, all compared "
                "with the model's tables inside Coq; B: generated queries (C02's generator + 40 typed expressions over a 12-column table, aggregates, "
                "casts, CASE, COALESCE) on both engines: static type list = variants of every returned chunk, equal arity; C: INSERT of NULL, "
                "boundary integers (incl. k*2^32+r), strings, booleans into SMALLINT/INT/BIGINT/VARCHAR/BOOLEAN x nullable/NOT NULL/PRIMARY KEY "
                "x VALUES/SELECT source/column subset on both engines, and must-fail statements",
        "samples": [tmeta[0], tmeta[-1]] if tmeta else [], "typed_queries_compared": compared, "accepted_but_no_kernel": nokernel,
        "model_vs_impl_disagreements": len(failing),
    })
    R.assumptions += ["DECIMAL precision/scale are not part of the array variant and are not compared", "an expression the analysis accepts but no kernel "
                      "implements fails at run time (counted as accepted_but_no_kernel): C17's subject, not a wrongly typed result"]


def replay(R, path):
    run(R)
    return R.finish()
