"""C13 — a key-range scan returns exactly the rows in the range."""
import json

from .common import *  # noqa: F401,F403
from .c17 import parse_sx

HEADER = "From RL Require Import Corr.C13.\nOpen Scope Z_scope.\n"
NULLKEY = -(1 << 40)      # NULL sorts before every integer in the derived order


def gen_range(rng, keys):
    pool = sorted(set(keys)) or [0]
    def pick():
        r = rng.random()
        if r < 0.5:
            return rng.choice(pool)
        if r < 0.7:
            return rng.choice(pool) + rng.choice([-1, 1])
        return rng.choice([min(pool) - 5, max(pool) + 5, 0])
    kind = rng.choice(["eq", "lt", "le", "gt", "ge", "two", "two", "none"])
    k, k2 = pick(), pick()
    lo, hi = min(k, k2), max(k, k2)
    if kind == "eq":
        return {"start": ["in", ["i32", k]], "end": ["in", ["i32", k]]}
    if kind == "lt":
        return {"start": None, "end": ["ex", ["i32", k]]}
    if kind == "le":
        return {"start": None, "end": ["in", ["i32", k]]}
    if kind == "gt":
        return {"start": ["ex", ["i32", k]], "end": None}
    if kind == "ge":
        return {"start": ["in", ["i32", k]], "end": None}
    if kind == "two":
        return {"start": [rng.choice(["in", "ex"]), ["i32", lo]], "end": [rng.choice(["in", "ex"]), ["i32", hi]]}
    return None


def in_range(r, x):
    if r is None:
        return True
    ok = True
    if r["start"]:
        k = r["start"][1][1]
        ok &= x >= k if r["start"][0] == "in" else x > k
    if r["end"]:
        k = r["end"][1][1]
        ok &= x <= k if r["end"][0] == "in" else x < k
    return ok


def gen_case(rng, tier):
    n = rng.choice([1, 2, 5, 9, 20, 40, rng.randint(1, 120)])
    dup = rng.random() < 0.5
    keys = sorted(rng.randint(0, n // 3 + 2 if dup else 4 * n) for _ in range(n))
    other = [None if rng.random() < 0.2 else rng.randint(-5, 60) for _ in range(n)]
    key_first = rng.random() < 0.85
    block = rng.choice([32, 40, 64, 128])
    cuts = sorted(rng.randint(0, n) for _ in range(rng.randint(0, 2)))
    chunks = []
    for a, b in zip([0] + cuts, cuts + [n]):
        if a < b:
            chunks.append([[["i32", k] for k in keys[a:b]], [None if v is None else ["i32", v] for v in other[a:b]]])
    scans = []
    for _ in range(rng.randint(2, 5)):
        cols = [0, 1] if key_first else rng.choice([[1, 0], [1]])
        if rng.random() < 0.2:
            cols = [0]
        dv = sorted(set(rng.randint(0, n - 1) for _ in range(rng.randint(0, max(1, n // 3))))) if rng.random() < 0.5 else []
        dvs = [dv[: len(dv) // 2], dv[len(dv) // 2:]] if dv and rng.random() < 0.4 else ([dv] if dv else [])
        scans.append({"cols": cols, "dvs": dvs, "range": gen_range(rng, keys), "size": rng.choice([None, None, 3, 7, 1000])})
    return {"cols": [{"ty": "i32", "nullable": False, "pk": True}, {"ty": "i32", "nullable": True}], "block": block,
            "chunks": chunks, "scans": scans, "keys": keys, "other": other}


GAPS = [False]


def visible_rows(start, batches, nrows):
    """row ids come from the row-handler column (last scanned column); a batch whose rows are all
    deleted is skipped by the iterator and leaves a gap, which is filled in as a (skipped) batch"""
    rows, sizes, pos = [], [], start
    for b in batches:
        ids = [h[1] & 0xFFFFFFFF for h in b["cols"][-1]]
        n = len(ids)
        if ids and ids[0] > pos:
            sizes.append(ids[0] - pos)
            GAPS[0] = True
        sizes.append(n)
        vis = b["vis"] if b["vis"] is not None else [True] * n
        rows += [i for i, v in zip(ids, vis) if v]
        pos = ids[0] + n if ids else pos
    if pos < nrows:
        sizes.append(nrows - pos)
        GAPS[0] = True
    return rows, sizes


def run(R, only=None):
    R.prove(extra=["Corr/C13r.vo"])
    build_harness()
    n = 300 if R.tier == "quick" else 5000
    cases = [gen_case(R.rng, R.tier) for _ in range(n)]
    outs = run_harness("rowset", [{"cols": c["cols"], "block": c["block"], "chunks": c["chunks"],
                                    "scans": [dict(s, cols=s["cols"] + ["rh"]) for s in c["scans"]]} for c in cases], jobs=16)
    terms, usable, nontriv, kinds = [], [], set(), {}
    for c, o in zip(cases, outs):
        if "scans" not in o:
            R.property_fails(None, f"C13 building the row-set failed: {json.dumps(o)[:150]}", {"kind": "rowset-scan", "case": {k: c[k] for k in ("cols", "block", "chunks")}})
            continue
        blocks = o["key_blocks"]
        for s, so in zip(c["scans"], o["scans"]):
            deleted = sorted({r for d in s["dvs"] for r in d})
            want = [i for i, k in enumerate(c["keys"]) if i not in deleted and in_range(s["range"], k)]
            rk = "none" if s["range"] is None else ("two" if s["range"]["start"] and s["range"]["end"] else "half")
            kinds[rk] = kinds.get(rk, 0) + 1
            klass = "KF_C13_key_not_first_scanned" if s["cols"][0] != 0 and s["range"] is not None else None
            if "batches" not in so:
                R.property_fails(klass, f"C13 the scan failed: {json.dumps(so)[:150]}",
                                 {"kind": "rowset-scan", "case": {**{k: c[k] for k in ("cols", "block", "chunks")}, "scans": [s]}})
                continue
            GAPS[0] = False
            rows, sizes = visible_rows(so["start"], so["batches"], len(c["keys"]))
            gaps = GAPS[0]
            if rows != want:
                R.property_fails(klass, f"C13 range scan returned rows {rows[:12]}.. ({len(rows)}), a full scan + predicate gives {want[:12]}.. ({len(want)})",
                                 {"kind": "rowset-scan", "case": {**{k: c[k] for k in ("cols", "block", "chunks")}, "scans": [s]}, "observed": so})
            if s["cols"][0] != 0 and gaps and s["range"] is not None:
                # the mask is computed on an UNSORTED column (known finding): its result depends on the boundaries of
                # batches the iterator dropped, which cannot be observed; no model comparison for this scan
                continue
            scanned0 = c["keys"] if s["cols"][0] == 0 else [NULLKEY if v is None else v for v in c["other"]]
            rng_t = "None"
            if s["range"] is not None:
                def b(x):
                    return "BUnb" if x is None else f"({'BIn' if x[0] == 'in' else 'BEx'} {cz(x[1][1])})"
                rng_t = f"(Some (mk_range {b(s['range']['start'])} {b(s['range']['end'])}))"
            terms.append(f"mk_case {clist(f'({bk[0]}%nat, {cz(bk[2])})' for bk in blocks)} {clist(cz(k) for k in scanned0)} "
                         f"{clist(f'{d}%nat' for d in deleted)} {rng_t} {clist(f'{z}%nat' for z in sizes)} {so['start']}%nat {clist(f'{r}%nat' for r in rows)}")
            usable.append((c, s))
            if len(blocks) > 1 and s["range"] is not None:
                nontriv.add(json.dumps([c["chunks"], s]))
    failing = coq_eval("C13", HEADER, terms, per_file=80)
    if failing:
        i = sorted(failing)[0]
        c, s = usable[i]
        R.correspondence_broken("C13 " + ("start_rowid = model" if 1 in failing[i] else "visible rows of the range scan = model"),
                                json.dumps({**{k: c[k] for k in ("cols", "block", "chunks")}, "scans": [s]})[:2500])
    # SQL level: WHERE on the key with the optimizer (range pushdown) on and off, disk engine, small blocks
    sc = []
    for i in range(120 if R.tier == "quick" else 2000):
        rng = R.rng
        nrows = rng.choice([3, 10, 40, 90])
        keys = rng.sample(range(0, 4 * nrows), nrows)
        pos = rng.choice([0, 0, 1])          # position of the key column in the table
        decl = ["a int primary key", "b int"] if pos == 0 else ["b int", "a int primary key"]
        rows = [(k, rng.randint(0, 9)) for k in keys]
        steps = [{"sql": f"create table t({', '.join(decl)})"}]
        batches = [rows[: nrows // 2], rows[nrows // 2:]] if rng.random() < 0.5 else [rows]
        for bt in batches:
            if bt:
                steps.append({"sql": "insert into t values " + ", ".join(f"({k}, {v})" if pos == 0 else f"({v}, {k})" for k, v in bt)})
        dele = None
        if rng.random() < 0.3:
            dele = rng.randint(0, 9)
            steps.append({"sql": f"delete from t where b = {dele}"})
        r = gen_range(rng, keys) or {"start": ["in", ["i32", keys[0]]], "end": None}
        conds = []
        if r["start"] and r["end"] and r["start"][1][1] == r["end"][1][1] and r["start"][0] == "in" and r["end"][0] == "in":
            conds.append(f"a = {r['start'][1][1]}")
        else:
            if r["start"]:
                conds.append(f"a {'>=' if r['start'][0] == 'in' else '>'} {r['start'][1][1]}")
            if r["end"]:
                conds.append(f"a {'<=' if r['end'][0] == 'in' else '<'} {r['end'][1][1]}")
        # redundant looser bounds on the key, before or after the tight ones: the range analysis must combine several bounds of one conjunction
        if rng.random() < 0.4:
            extra = []
            lo_v = r["start"][1][1] if r["start"] else None
            hi_v = r["end"][1][1] if r["end"] else None
            if lo_v is not None and rng.random() < 0.7:
                extra.append(f"a {rng.choice(['>', '>='])} {lo_v - rng.randint(1, 6)}")
            if hi_v is not None and rng.random() < 0.7:
                extra.append(f"a {rng.choice(['<', '<='])} {hi_v + rng.randint(1, 6)}")
            conds = extra + conds if rng.random() < 0.5 else conds + extra
        resid = rng.choice([None, None, "b > 3", "b < 8"])
        if resid:
            conds.append(resid)
        sel = rng.choice(["a, b", "b, a", "b", "a"])
        q = f"select {sel} from t where {' and '.join(conds)}"
        steps += [{"explain": q}, {"sql": q}, {"sql": "pragma disable_optimizer"}, {"sql": q}]
        live = [(k, v) for k, v in rows if v != dele]
        want = [(k, v) for k, v in live if in_range(r, k) and (resid is None or (v > 3 if resid == "b > 3" else v < 8))]
        sc.append({"steps": steps, "want": want, "sel": sel, "q": q, "pos": pos, "block": rng.choice([64, 128, None])})
    # other key types and bound constants: BIGINT and VARCHAR primary keys, INT keys compared with BIGINT / DECIMAL constants
    # (the storage seeks and masks INT keys with INT bounds only: every other range has to stay a filter)
    for i in range(24 if R.tier == "quick" else 300):
        rng = R.rng
        kind = rng.choice(["bigint", "varchar", "int-bigconst", "int-decimal"])
        n = rng.choice([3, 8, 30])
        if kind == "varchar":
            keys = rng.sample([f"k{j:03d}" for j in range(4 * n)], n)
            lit = lambda k: f"'{k}'"
            decl, bound = "a varchar primary key, b int", rng.choice(keys + ["k", "k999", "k0105"])
            blit = f"'{bound}'"
        else:
            keys = rng.sample(range(0, 4 * n), n)
            if kind == "bigint":
                keys = [k + rng.choice([0, 0, 5000000000]) for k in keys]
            lit = str
            decl = "a bigint primary key, b int" if kind == "bigint" else "a int primary key, b int"
            bound = rng.choice(keys + [rng.randint(-1, 4 * n)])
            blit = str(bound) if kind == "bigint" else (f"cast({bound} as bigint)" if kind == "int-bigconst" else f"{bound}.5")
            if kind == "int-decimal":
                bound = bound + 0.5
        rows = [(k, rng.randint(0, 9)) for k in keys]
        op = rng.choice(["=", "<", "<=", ">", ">="])
        steps = [{"sql": f"create table t({decl})"}]
        for bt in ([rows[: n // 2], rows[n // 2:]] if rng.random() < 0.5 else [rows]):
            if bt:
                steps.append({"sql": "insert into t values " + ", ".join(f"({lit(k)}, {v})" for k, v in bt)})
        q = f"select a, b from t where a {op} {blit}"
        steps += [{"explain": q}, {"sql": q}, {"sql": "pragma disable_optimizer"}, {"sql": q}]
        cmp = {"=": lambda x: x == bound, "<": lambda x: x < bound, "<=": lambda x: x <= bound, ">": lambda x: x > bound, ">=": lambda x: x >= bound}[op]
        sc.append({"steps": steps, "want": [(k, v) for k, v in rows if cmp(k)], "sel": "a, b", "q": q, "pos": 0, "block": rng.choice([64, None])})
    so = run_harness("sql", [{"engine": "disk", "steps": c["steps"], **({"block": c["block"]} if c["block"] else {})} for c in sc], jobs=16)
    # the condition the planner pushed into the scan, against the model of the range analysis (Corr/C13r.v)
    rterms, rowner = [], []
    for c, o in zip(sc, so):
        if isinstance(o, list) and len(o) >= len(c["steps"]) and isinstance(o[-4], dict) and "plan" in o[-4]:
            for cond in pushed_conditions(parse_sx(o[-4]["plan"])):
                rt = rex_term(cond)
                if "XCol" not in rt or "XOther" in rt:
                    continue       # a constant (`false` after folding) or another expression: the executor applies it as an ordinary filter
                rterms.append(f"mk_case {0 if c['pos'] == 0 else 1} {rex_term(cond)}")
                rowner.append((c, cond))
    rfail = coq_eval("C13r", "From RL Require Import Corr.C13r.\nOpen Scope Z_scope.\n", rterms, per_file=200)
    if rfail:
        i = sorted(rfail)[0]
        c, cond = rowner[i]
        R.correspondence_broken("C13 the condition pushed into the scan is one the model's range analysis accepts (" +
                                {1: "the model does not push it", 2: "another key column"}[rfail[i][0]] + f"): `{c['q']}`",
                                json.dumps({"steps": c["steps"], "pushed": str(cond)})[:3000])
    for c, o in zip(sc, so):
        if not isinstance(o, list) or len(o) < len(c["steps"]):
            R.property_fails(None, f"C13 script aborted: {json.dumps(o)[-200:]}", {"kind": "sql-script", "case": c["steps"]})
            continue
        proj = {"a, b": lambda k, v: [k, v], "b, a": lambda k, v: [v, k], "b": lambda k, v: [v], "a": lambda k, v: [k]}[c["sel"]]
        want = sorted(json.dumps(proj(k, v)) for k, v in c["want"])
        klass = "KF_C13_key_not_first_scanned" if (c["pos"] != 0 or not c["sel"].startswith("a")) else None
        for which, oo in (("optimizer on", o[-3]), ("optimizer off", o[-1])):
            if "ok" not in oo:
                R.property_fails(klass, f"C13 `{c['q']}` ({which}) failed: {json.dumps(oo)[:120]}", {"kind": "sql-script", "case": c["steps"]})
                break
            got = sorted(json.dumps([x[1] for x in r]) for r in oo["ok"][0]["rows"])
            if got != want:
                R.property_fails(klass, f"C13 `{c['q']}` ({which}) returned {len(got)} rows, a full scan + predicate gives {len(want)}",
                                 {"kind": "sql-script", "case": c["steps"], "observed": oo})
                break
    R.coverage.update({
        "evaluations": len(terms) + len(sc), "distinct_nontrivial": len(nontriv),
        "rule": "row-sets with a sorted INT key (duplicates, 1-120 rows, block sizes 32..128 so that there are many blocks, 1-3 appends), "
                "delete vectors, every bound kind (=, <, <=, >, >=, two-sided, absent) on present / absent / extreme keys, batch sizes; "
                "SQL WHERE on the key with residual predicates and redundant looser bounds, key at table position 0 or 1, optimizer on/off; BIGINT and VARCHAR "
                "primary keys and INT keys compared with BIGINT / DECIMAL constants; non-trivial = >= 2 blocks and a range",
        "samples": [{k: cases[0][k] for k in ("block", "chunks", "scans")}], "range_kind_distribution": kinds,
        "sql_cases": len(sc), "model_vs_impl_disagreements": len(failing),
    })
    R.assumptions += ["only INT keys are modelled; other key types hit `panic!(\"... int32\")` / enum-variant comparison (known finding, exercised at SQL level only)"]


def pushed_conditions(t):
    """third arguments (other than `true`) of the scan nodes of a plan"""
    if isinstance(t, str):
        return []
    op, args = t
    out = []
    if op == "scan" and len(args) == 3 and args[2] != "true":
        out.append(args[2])
    for a in args:
        out += pushed_conditions(a)
    return out


def rex_term(t):
    import re as _re
    if isinstance(t, str):
        m = _re.fullmatch(r"\$(\d+)\.(\d+)", t)
        if m:
            return f"(XCol {m.group(2)}%nat)"
        if _re.fullmatch(r"-?\d+", t):
            return f"(XConst (DI32 ({t})))"
        if t == "null":
            return "(XConst DNull)"
        return "XOther"
    op, args = t
    ops = {"=": "OEq", ">": "OGt", ">=": "OGe", "<": "OLt", "<=": "OLe"}
    if op in ops and len(args) == 2:
        return f"(XCmp {ops[op]} {rex_term(args[0])} {rex_term(args[1])})"
    if op == "and" and len(args) == 2:
        return f"(XAnd {rex_term(args[0])} {rex_term(args[1])})"
    return "XOther"


def replay(R, path):
    run(R)
    return R.finish()
