"""C04 — a crash at any instant leaves a recoverable, atomic, durable database.

  (i)   proofs Props/C04.v (torn appends invisible, complete appends durable, every crash state of
        a commit recovers to before / after, recovery idempotent, recovered ids fresh);
  (ii)  correspondence Corr/C04.v: the manifest of every crash image, parsed into records, boots in
        the model to the state the engine shows after recovering the image, and the engine's
        compacted rewrite is the model's;
  (iii) crash images of real workloads: a workload is run once with a copy of the directory after
        every statement; for each statement the images "k new files complete (+ one truncated),
        old manifest", "all files, manifest + every byte prefix of the appended transaction",
        "some of the vacuumed files already removed", "tmp manifest partially written" are built,
        opened with Database::new_on_disk, compared with the state before / after the statement,
        used (an INSERT per table), reopened and compared again.
"""
import json
import os
import re
import shutil

import random

from .common import *  # noqa: F401,F403
from . import c03, tracefs
from .c03 import NAMES, SCHEMAS, lit, norm_row, expected_row, pred_fn, parse_log

HEADER = "From RL Require Import Corr.C04.\n"
BASE = os.path.join(CACHE, "crash")


def gen_workload(rng, tier):
    stmts = []          # (sql-or-step, kind, args)
    live = {}
    plan = rng.choice([
        ["create", "insert", "insert", "delete", "insert", "sleep", "delete", "reopen", "insert"],
        ["create", "insert", "delete", "drop", "create", "insert", "reopen"],
        ["create", "create", "insert", "insert", "delete", "delete", "sleep", "drop", "insert"],
        ["create", "insert", "insert", "insert", "sleep", "deleteall", "sleep", "reopen", "insert"],
        [None] * rng.randint(5, 9),
    ])
    for forced in plan:
        r = rng.random()
        kind = forced or ("create" if r < 0.2 else "drop" if r < 0.27 else "insert" if r < 0.6 else "delete" if r < 0.78 else "sleep" if r < 0.9 else "reopen")
        if kind == "create":
            free = [x for x in NAMES[:3] if x not in live]
            if not free:
                continue
            name = rng.choice(free)
            si = rng.choice([0, 1, 2, 3, 5, 5])
            live[name] = [si, 0]
            stmts.append(({"sql": f"create table {name}({SCHEMAS[si][0]})"}, "create", (name, si)))
        elif kind == "drop":
            if not live:
                continue
            name = rng.choice(sorted(live))
            del live[name]
            stmts.append(({"sql": f"drop table {name}"}, "drop", (name,)))
        elif kind == "insert":
            if not live:
                continue
            name = rng.choice(sorted(live))
            si = live[name][0]
            rows = []
            for _ in range(rng.choice([1, 3, 12, 40])):
                live[name][1] += rng.randint(1, 3)
                rows.append(SCHEMAS[si][1](rng, live[name][1]))
            stmts.append(({"sql": f"insert into {name} values " + ", ".join("(" + ", ".join(lit(v) for v in r) + ")" for r in rows)}, "insert", (name, rows)))
        elif kind in ("delete", "deleteall"):
            if not live:
                continue
            name = rng.choice(sorted(live))
            k = rng.randint(0, 30)
            pk = rng.choice(["lt", "ge", "mod"]) if kind == "delete" else "all"
            pred = {"lt": f"a < {k}", "ge": f"a >= {k}", "all": None, "mod": f"a % 2 = {k % 2}"}[pk]
            stmts.append(({"sql": f"delete from {name}" + (f" where {pred}" if pred else "")}, "delete", (name, pk, k)))
        elif kind == "sleep":
            stmts.append(({"sleep_ms": 900}, "sleep", ()))
        else:
            stmts.append(({"reopen": True}, "reopen", ()))
    opts = {"block": rng.choice([64, 256, None]), "rowset": rng.choice([None, 1500]), "crc": rng.choice([True, False])}
    return {"stmts": stmts, "opts": opts}


def walk(d):
    out = {}
    for root, _, files in os.walk(d):
        for f in files:
            p = os.path.join(root, f)
            out[os.path.relpath(p, d)] = os.path.getsize(p)
    return out


def write_order(path):
    """the order in which a commit writes its new files: row-set directories by id, inside a directory
    columns in order (.col before .idx), delete vectors afterwards"""
    parts = path.split("/")
    if parts[0] == "dv":
        return (1, 0, 0, parts[1])
    try:
        t, r = parts[0].split("_")
        col = int(parts[1].split(".")[0])
        return (0, int(r), col, 0 if parts[1].endswith(".col") else 1)
    except Exception:
        return (2, 0, 0, path)


def build_images(rng, wdir, i, tier):
    """crash images between snapshot i and i+1; returns [(dir, allowed, what)]"""
    a, b = os.path.join(wdir, f"s{i}"), os.path.join(wdir, f"s{i + 1}")
    fa, fb = walk(a), walk(b)
    ma = open(os.path.join(a, "manifest.json"), "rb").read() if "manifest.json" in fa else b""
    mb = open(os.path.join(b, "manifest.json"), "rb").read() if "manifest.json" in fb else b""
    new = sorted((f for f in fb if f not in fa and not f.startswith("manifest")), key=write_order)
    gone = sorted(f for f in fa if f not in fb and not f.startswith("manifest"))
    images = []

    def make(tag, files_from_b, truncated, removed, manifest, tmp=None):
        d = os.path.join(wdir, f"img{i}_{len(images)}")
        shutil.copytree(a, d)
        for f in files_from_b:
            os.makedirs(os.path.dirname(os.path.join(d, f)), exist_ok=True)
            shutil.copyfile(os.path.join(b, f), os.path.join(d, f))
        if truncated:
            f, cut = truncated
            os.makedirs(os.path.dirname(os.path.join(d, f)), exist_ok=True)
            with open(os.path.join(d, f), "wb") as out:
                out.write(open(os.path.join(b, f), "rb").read()[:cut])
        for f in removed:
            if os.path.exists(os.path.join(d, f)):
                os.remove(os.path.join(d, f))
                dd = os.path.dirname(os.path.join(d, f))
                if dd != d and not os.listdir(dd) and rng.random() < 0.5 and not dd.endswith("/dv"):
                    os.rmdir(dd)
        with open(os.path.join(d, "manifest.json"), "wb") as out:
            out.write(manifest)
        if tmp is not None:
            with open(os.path.join(d, "manifest.tmp.json"), "wb") as out:
                out.write(tmp)
        return d

    appended = mb[len(ma):] if mb.startswith(ma) else None
    dense = tier == "thorough"
    # 1. the new files are being written, the manifest is untouched
    for k in range(len(new) + 1):
        if k and not dense and len(new) > 4 and rng.random() < 0.5:
            continue
        images.append((make("files", new[:k], None, [], ma), "before", f"{k} of {len(new)} new files written"))
        if k < len(new):
            size = fb[new[k]]
            cut = rng.choice([0, size // 2, max(0, size - 1)])
            images.append((make("files+torn", new[:k], (new[k], cut), [], ma), "before", f"{k} new files written, {new[k]} cut at {cut}/{size}"))
    if appended is not None:
        # 2. all files are there, the transaction is being appended to the manifest
        n = len(appended)
        cuts = list(range(n + 1)) if (n <= 260 or dense and n <= 900) else sorted(set([0, 1, n - 1, n] + [rng.randint(0, n) for _ in range(40)]))
        if not dense and len(cuts) > 60:
            cuts = sorted(set([0, 1, n - 1, n] + rng.sample(cuts, 50)))
        for c in cuts:
            images.append((make("append", new, None, [], ma + appended[:c]), "after" if c == n else "before", f"manifest append cut at {c}/{n}"))
    else:
        # 2'. boot: the compacted manifest is written to manifest.tmp.json and renamed
        n = len(mb)
        for c in sorted(set([0, 1, n // 2, n - 1, n] + [rng.randint(0, n) for _ in range(6)])):
            # (files are only removed once the manifest that no longer references them is in place: none here)
            images.append((make("rewrite-tmp", new if rng.random() < 0.5 else [], None, [], ma, tmp=mb[:c]), "either", f"tmp manifest cut at {c}/{n}"))
    # 3. committed; the files of replaced row-sets are being removed
    for k in sorted(set([0, len(gone)] + [rng.randint(0, len(gone)) for _ in range(2)])):
        images.append((make("vacuum", new, None, gone[:k], mb), "after", f"committed, {k} of {len(gone)} stale files removed"))
    return images


def traced_images(rng, w, wdir, tier):
    """crash images from the system-call trace of a real run of the workload: the directory after
    every prefix of the persistence operations the process executed, and torn variants of each write"""
    import copy
    dbdir = os.path.join(wdir, "tdb")
    case = {"engine": "disk", "atomic": True, "markers": True, "dir": dbdir, **{k: v for k, v in w["opts"].items() if v is not None},
            "steps": [st for st, _, _ in w["stmts"]]}
    trace = os.path.join(wdir, "trace.txt")
    out = tracefs.run_traced(json.dumps(case), trace)
    try:
        res = json.loads(out.strip().split("\n")[-1])
    except Exception:
        return None, f"traced run produced no result: {out[-200:]}"
    if not isinstance(res, list) or len(res) < len(w["stmts"]) or any(isinstance(x, dict) and ("err" in x or "panic" in x) for x in res):
        return None, f"traced run failed: {json.dumps(res)[:200]}"
    events = tracefs.parse(open(trace, errors="replace").read(), dbdir)
    os.remove(trace)
    shutil.rmtree(dbdir, ignore_errors=True)
    fs = tracefs.FS()
    images, seen = [], set()
    cur, between = -1, True       # statement index; between statements (or inside the first open)?

    def emit(f, what):
        k = f.key()
        if k in seen:
            return
        seen.add(k)
        i = max(cur, 0)
        if cur < 0:
            allowed, stmt = "before", 0
        elif between:
            allowed, stmt = "after", cur
        else:
            allowed, stmt = "either", cur
        d = os.path.join(wdir, f"timg{len(images)}")
        f.materialise(d)
        pre = bytes(f.files.get("manifest.json", b"")).decode("utf-8", "replace")
        images.append((d, allowed, f"{what} [traced]", stmt, pre))

    nops = 0
    for ev in events:
        if ev[0] == "marker":
            m = re.match(r"(\d+)_(begin|end)$", ev[1])
            if m:
                cur, between = int(m.group(1)), m.group(2) == "end"
            elif ev[1] == "open_end":
                cur, between = -1, True
            continue
        nops += 1
        if ev[0] == "write" and len(ev[3]) > 1:
            n = len(ev[3])
            if ev[1].startswith("manifest"):
                cuts = sorted(set([1, n // 2, n - 1] + [rng.randint(1, n - 1) for _ in range(10 if tier == "quick" else 40)]))
            else:
                cuts = sorted(set([n // 2, n - 1]))
            for c in cuts:
                f2 = copy.deepcopy(fs)
                f2.apply(ev, cut=c)
                emit(f2, f"operation {nops} ({ev[0]} {ev[1]}) torn at {c}/{n}")
        fs.apply(ev)
        emit(fs, f"after operation {nops} ({ev[0]} {ev[1]})")
    return images, nops


def bag_states(w):
    """(tables: name -> (schema, rows)) after each statement prefix"""
    states = [{}]
    for step, kind, args in w["stmts"]:
        s = {k: (v[0], list(v[1])) for k, v in states[-1].items()}
        if kind == "create":
            s[args[0]] = (args[1], [])
        elif kind == "drop":
            s.pop(args[0], None)
        elif kind == "insert":
            s[args[0]][1].extend(expected_row(r) for r in args[1])
        elif kind == "delete":
            f = pred_fn(args[1], args[2])
            s[args[0]] = (s[args[0]][0], [r for r in s[args[0]][1] if not f(r)])
        states.append(s)
    return states


def probe_steps(candidates):
    """what is run on every crash image"""
    steps = [{"sql": "select * from pg_catalog.pg_tables"}]
    for n in NAMES[:3]:
        steps.append({"layout": n})
    steps.append({"read": "manifest.json"})
    for n in NAMES[:3]:
        steps.append({"sql": f"select * from {n}"})
    for n in NAMES[:3]:
        si = candidates.get(n)
        row = SCHEMAS[si][1](__import__("random").Random(7), 100000) if si is not None else (1, 1)
        steps.append({"sql": f"insert into {n} values (" + ", ".join(lit(v) for v in row) + ")", "_row": list(row)})
    for n in NAMES[:3]:
        steps.append({"sql": f"delete from {n} where a % 5 = 1"})
    steps.append({"reopen": True})
    for n in NAMES[:3]:
        steps.append({"sql": f"select * from {n}"})
    return steps


def run(R, only=None):
    R.prove()
    build_harness()
    shutil.rmtree(BASE, ignore_errors=True)
    os.makedirs(BASE, exist_ok=True)
    try:
        _run(R, only)
    finally:
        shutil.rmtree(BASE, ignore_errors=True)


def _run(R, only):
    nw = 10 if R.tier == "quick" else 40
    ws = only or [gen_workload(R.rng, R.tier) for _ in range(nw)]
    jobs = []
    for wi, w in enumerate(ws):
        wdir = os.path.join(BASE, f"w{wi}")
        os.makedirs(wdir)
        steps = [{"snapshot": os.path.join(wdir, "s0")}]
        for j, (st, kind, args) in enumerate(w["stmts"]):
            steps += [st, {"snapshot": os.path.join(wdir, f"s{j + 1}")}]
        jobs.append({"engine": "disk", "atomic": True, "dir": os.path.join(wdir, "db"), **{k: v for k, v in w["opts"].items() if v is not None}, "steps": steps})
    outs = run_harness("sql", jobs, jobs=16)
    probes, meta = [], []
    for wi, (w, o) in enumerate(zip(ws, outs)):
        wdir = os.path.join(BASE, f"w{wi}")
        replay = {"kind": "crash-workload", "workload": w}
        if not isinstance(o, list) or len(o) < 2 * len(w["stmts"]) + 1 or any(isinstance(x, dict) and ("err" in x or "panic" in x) for x in o):
            bad = [x for x in (o if isinstance(o, list) else [o]) if not isinstance(x, dict) or "err" in x or "panic" in x][:1]
            R.property_fails(None, f"C04 the crash-free run of the workload failed: {json.dumps(bad)[:200]}", replay)
            continue
        states = bag_states(w)
        for i in range(len(w["stmts"])):
            cands = {}
            for s in (states[i], states[i + 1]):
                for n, (si, _) in s.items():
                    cands[n] = si
            for d, allowed, what in build_images(R.rng, wdir, i, R.tier):
                ps = probe_steps(cands)
                probes.append({"engine": "disk", "atomic": True, "dir": d, **{k: v for k, v in w["opts"].items() if v is not None},
                               "steps": [{k: v for k, v in s.items() if not k.startswith("_")} for s in ps]})
                meta.append((wi, i, allowed, what, ps, d))
    # crash points taken from the system-call trace of a real run (no assumption on the order of the operations)
    from concurrent.futures import ThreadPoolExecutor
    ntr = len(ws) if only else (4 if R.tier == "quick" else 12)
    traced_ops = 0

    def tr(wi):
        wdir = os.path.join(BASE, f"w{wi}")
        os.makedirs(wdir, exist_ok=True)
        return traced_images(random.Random(R.seed * 977 + wi), ws[wi], wdir, R.tier)
    with ThreadPoolExecutor(8) as ex:
        tres = list(ex.map(tr, range(min(ntr, len(ws)))))
    for wi, (imgs, info) in enumerate(tres):
        w = ws[wi]
        if imgs is None:
            R.property_fails(None, f"C04 {info}", {"kind": "crash-workload", "workload": w})
            continue
        traced_ops += info
        states = bag_states(w)
        for d, allowed, what, i, pre in imgs:
            cands = {}
            for st in (states[i], states[min(i + 1, len(states) - 1)]):
                for n, (si, _) in st.items():
                    cands[n] = si
            ps = probe_steps(cands)
            PRE_MANIFEST[d] = pre
            probes.append({"engine": "disk", "atomic": True, "dir": d, **{k: v for k, v in w["opts"].items() if v is not None},
                           "steps": [{k: v for k, v in s.items() if not k.startswith("_")} for s in ps]})
            meta.append((wi, i, allowed, what, ps, d))
    R.coverage["traced_operations"] = traced_ops
    R.coverage["crash_images"] = len(probes)
    pouts = run_harness("sql", probes, jobs=16)
    terms, usable = [], []
    kinds = {}
    for (wi, i, allowed, what, ps, d), o in zip(meta, pouts):
        w = ws[wi]
        states = bag_states(w)
        kind = w["stmts"][i][1]
        kinds[kind] = kinds.get(kind, 0) + 1
        replay = {"kind": "crash-image", "workload": w, "statement": i, "image": what}
        tag = f"C04 crash during statement {i} ({kind}: {json.dumps(w['stmts'][i][0])[:60]}), image: {what}"
        if not isinstance(o, list) or not o or "ok" not in o[0]:
            R.property_fails(None, f"{tag}: the database does not open: {json.dumps(o[-1] if isinstance(o, list) and o else o)[:220]}", replay)
            continue
        if len(o) < len(ps):
            R.property_fails(None, f"{tag}: recovery succeeded but the session stopped at probe {len(o)}: {json.dumps(o[-1])[:220]}", replay)
            continue
        cat = {r[3][1]: r[2][1] for r in o[0]["ok"][0]["rows"] if r[1][1] == "postgres"}
        got = {}
        for n, x in zip(NAMES[:3], o[5:8]):
            if "ok" in x:
                got[n] = sorted((norm_row(r) for r in x["ok"][0]["rows"]), key=repr)
        match = None
        for label, s in (("before", states[i]), ("after", states[i + 1])):
            if allowed in (label, "either") and set(got) == set(s) and all(got[n] == sorted(s[n][1], key=repr) for n in s):
                match = (label, s)
                break
        if match is None:
            exp = states[i] if allowed == "before" else states[i + 1]
            R.property_fails(None, f"{tag}: after recovery the tables are {({n: len(v) for n, v in got.items()})}, the acknowledged state "
                                   f"({allowed}) is {({n: len(v[1]) for n, v in exp.items()})}", replay)
            continue
        label, s = match
        # the recovered database is usable and stays the same over another reopen
        ok = True
        for n, st, x in zip(NAMES[:3], ps[8:11], o[8:11]):
            if (n in s) != ("ok" in x):
                R.property_fails(None, f"{tag}: after recovery `insert into {n}` {'fails: ' + json.dumps(x)[:150] if n in s else 'succeeds on a table that does not exist'}", replay)
                ok = False
        if not ok:
            continue
        for n, x in zip(NAMES[:3], o[11:14]):
            if (n in s) != ("ok" in x):
                R.property_fails(None, f"{tag}: after recovery `delete from {n}` {'fails: ' + json.dumps(x)[:150] if n in s else 'succeeds on a table that does not exist'}", replay)
                ok = False
        if not ok:
            continue
        if not o[14].get("reopened"):
            R.property_fails(None, f"{tag}: the recovered database does not reopen: {json.dumps(o[14])[:200]}", replay)
            continue
        for n, st, x in zip(NAMES[:3], ps[8:11], o[15:18]):
            if n in s:
                want = sorted((r for r in s[n][1] + [expected_row(tuple(st["_row"]))] if (abs(r[0]) % 5) * (1 if r[0] >= 0 else -1) != 1), key=repr)
                gotn = sorted((norm_row(r) for r in x["ok"][0]["rows"]), key=repr) if "ok" in x else None
                if gotn != want:
                    R.property_fails(None, f"{tag}: after recovery, one INSERT, one DELETE and a reopen table {n} holds {None if gotn is None else len(gotn)} rows, expected {len(want)}", replay)
                    ok = False
        if not ok:
            continue
        # model correspondence on the image's manifest
        img_manifest = open(os.path.join(d, "manifest.json"), "rb").read().decode("utf-8", "replace") if os.path.exists(os.path.join(d, "manifest.json")) else None
        if img_manifest is None:
            continue
        lay = {n: x["layout"] for n, x in zip(NAMES[:3], o[1:4]) if x.get("layout") is not None and n in cat}
        tabs_t = clist(f"({t}, {NAMES.index(nm) + 1})" for nm, t in sorted(cat.items(), key=lambda x: x[1]) if nm in NAMES)
        rs_t = clist(f"({cat[nm]}, {r['id']})" for nm in sorted(lay) for r in lay[nm])
        dv_t = clist(f"({cat[nm]}, {dv[0]}, {r['id']})" for nm in sorted(lay) for r in lay[nm] for dv in r["dvs"])
        # NOTE: the image was modified by the probe run; the manifest before recovery was saved in `img_manifest`? no: read it from the probe's own first read
        terms.append((d, tabs_t, rs_t, dv_t, o[4].get("read", "")))
        usable.append((wi, i, what))
    # the manifest of the image BEFORE recovery has to be rebuilt: images are deterministic functions of the snapshots
    cterms = []
    for (d, tabs_t, rs_t, dv_t, relog), (wi, i, what) in zip(terms, usable):
        pre = PRE_MANIFEST.get(d)
        if pre is None:
            continue
        cterms.append(f"mk_case {clist(parse_log(pre))} {tabs_t} {rs_t} {dv_t} {clist(parse_log(relog))}")
    failing = coq_eval("C04", HEADER, cterms, per_file=40) if cterms else {}
    if failing:
        j = sorted(failing)[0]
        wi, i, what = usable[j]
        names = {1: "the model boots the image's manifest", 2: "tables after recovery = model boot", 3: "row-sets after recovery = model boot",
                 4: "delete vectors after recovery = model boot", 5: "compacted manifest after recovery = model rewrite"}
        R.correspondence_broken(f"C04 {names.get(failing[j][0], failing[j][0])} (statement {i}, image: {what})", json.dumps({"workload": ws[wi]}))
    R.coverage.update({
        "evaluations": len(probes), "distinct_nontrivial": len(cterms),
        "rule": "workloads of 5-9 statements (CREATE/DROP TABLE, INSERT 1-40 rows, DELETE, compactor+vacuum pass, reopen; 4 directed shapes + random; "
                "block 64/256/default, row-set size 1500/default, checksum on/off) run once with a directory copy after every statement; per "
                "statement: images with k new files (+ one truncated at 0 / half / size-1), manifest append cut at every byte (<= 260 bytes) or 40-50 "
                "sampled cuts, tmp manifest cut at 11 points, 0..all stale files removed; each image is opened, compared with the state before / "
                "after, written to, reopened and compared again",
        "samples": [[s[0] for s in ws[0]["stmts"]][:5]], "images_per_statement_kind": kinds, "model_vs_impl_disagreements": len(failing),
    })
    R.assumptions += ["process-death model: completed writes persist, one write is torn; the order of a commit's file writes is taken from the code "
                      "(row-set files in column order, then delete vectors, then the manifest append); loss of un-fsynced directory entries (power "
                      "failure) is outside the model", "crash points inside the boot's own vacuum and inside a background vacuum are represented by "
                      "images with a prefix of the stale files removed"]


PRE_MANIFEST = {}
_orig_build = build_images


def build_images(rng, wdir, i, tier):     # noqa: F811  (records each image's manifest before the probe run changes it)
    imgs = _orig_build(rng, wdir, i, tier)
    for d, allowed, what in imgs:
        p = os.path.join(d, "manifest.json")
        PRE_MANIFEST[d] = open(p, "rb").read().decode("utf-8", "replace") if os.path.exists(p) else ""
    return imgs


def replay(R, path):
    d = json.load(open(path))
    w = d.get("workload") or json.loads(d["detail"])["workload"]
    w["stmts"] = [tuple(x) for x in w["stmts"]]
    run(R, only=[w])
    return R.finish()
