"""C07 — deletes are exact and permanent; compaction is invisible.

Three oracles on histories of insert / delete where p / compactor+vacuum pass / reopen:
  (i)   proofs Props/C07.v (bag refinement for every history, delete count, compaction invisible,
        DV bitmap, sorted row-sets + merge scan);
  (ii)  correspondence Corr/C07.v: the physical state read after every step through the hook
        Database::verif_layout must be the model's step applied to the state read before it;
  (iii) an independent bag oracle in Python on the SQL results (gives the concrete replays).
"""
import json

from .common import *  # noqa: F401,F403

HEADER = "From RL Require Import Corr.C07.\n"


def cell(x):
    return None if x is None else x[1]


def gen_history(rng, tier):
    pk = rng.random() < 0.5
    uniq = pk and rng.random() < 0.85
    nullable_b = rng.random() < 0.4
    with_s = rng.random() < 0.3
    opts = {"block": rng.choice([64, 128, 128, 4096, None]),
            "rowset": rng.choice([None, None, 600, 1500, 4000, 20000]),
            "crc": rng.choice([True, True, False])}
    cols = f"a int{' primary key' if pk else ' not null'}, b int{'' if nullable_b else ' not null'}" + (", s varchar" if with_s else "")
    steps = [{"sql": f"create table t({cols})"}]
    script = [("ddl", None)]
    next_key = [0]
    bdom = rng.choice([2, 3, 5, 50])

    def new_rows(n):
        rows = []
        for _ in range(n):
            if uniq:
                next_key[0] += rng.randint(1, 3)
                a = next_key[0] if rng.random() < 0.7 else -next_key[0]
            else:
                a = rng.randint(0, 30)
            b = None if nullable_b and rng.random() < 0.2 else rng.randint(0, bdom - 1)
            r = (a, b) + ((rng.choice(["x", "yy", "", "zzz" * 5]),) if with_s else ())
            rows.append(r)
        if uniq:
            rng.shuffle(rows)
        return rows

    def lit(v):
        return "null" if v is None else (f"'{v}'" if isinstance(v, str) else str(v))

    nsteps = rng.randint(4, 10) if tier == "quick" else rng.randint(6, 22)
    plan = [None] * nsteps
    if rng.random() < 0.2:
        # directed: empty the table through deletes, let the compactor drop the row-sets, restart
        # (twice: the id generators restart from what is left in the log), insert again
        plan = ([0.0] * rng.randint(2, 3) + ["all"] + [0.8] + [0.95] * rng.randint(1, 2) + [0.0, None, 0.0, 0.8, None, 0.95, None])
    elif uniq and rng.random() < 0.2:
        # directed: a delete vector on an old row-set, restart (the id generators restart from the log), then a DELETE that touches
        # only the row-set inserted after the restart; restart again
        plan = [0.0, 0.0, "old", 0.95, 0.0, "newest", None, 0.95, None]
    last_rows = [[]]
    for forced in plan:
        r = rng.random() if forced in (None, "all", "old", "newest") else forced
        if forced in ("all", "old", "newest"):
            r = 0.5
        if r < 0.42:
            rows = new_rows(rng.choice([1, 2, 5, 12, 30, rng.randint(1, 60)]))
            # several VALUES chunks are one statement; sometimes two statements in one step
            steps.append({"sql": "insert into t values " + ", ".join("(" + ", ".join(lit(v) for v in row) + ")" for row in rows)})
            script.append(("insert", rows))
            last_rows[0] = rows
        elif r < 0.70:
            kind = "all" if forced == "all" else rng.choice(["b=", "a<", "a>=", "a=", "bnull", "all", "mod", "none"])
            k = rng.randint(-5, 40)
            if forced == "old":
                kind, k = "a<", rng.randint(1, 4)          # some of the first keys (and the negative ones)
            elif forced == "newest" and last_rows[0]:
                kind, k = "a>=", min(abs(row[0]) for row in last_rows[0])
            pred, fn = mk_pred(kind, k, bdom)
            steps.append({"sql": "delete from t" + (f" where {pred}" if pred else "")})
            script.append(("delete", [kind, k, bdom]))
        elif r < 0.88:
            steps.append({"sleep_ms": 900})
            script.append(("sleep", None))
        else:
            steps.append({"reopen": True})
            script.append(("reopen", None))
        steps.append({"layout": "t"})
        steps.append({"sql": "select * from t"})
        script += [("layout", None), ("scan", None)]
        if pk and rng.random() < 0.5:
            steps.append({"sql": "select * from t order by a"})
            script.append(("oscan", None))
    return {"pk": pk, "uniq": uniq, "opts": opts, "steps": steps, "script": script, "ncols": 3 if with_s else 2}


def mk_pred(kind, k, bdom):
    kb, km = k % bdom, k % 3
    return {
        "b=": (f"b = {kb}", lambda row: row[1] is not None and row[1] == kb),
        "a<": (f"a < {k}", lambda row: row[0] < k),
        "a>=": (f"a >= {k}", lambda row: row[0] >= k),
        "a=": (f"a = {k}", lambda row: row[0] == k),
        "bnull": ("b is null", lambda row: row[1] is None),
        "all": (None, lambda row: True),
        # SQL % truncates toward zero: -7 % 3 = -1
        "mod": (f"a % 3 = {km}", lambda row: (abs(row[0]) % 3) * (1 if row[0] >= 0 else -1) == km),
        "none": ("a > 100000", lambda row: False),
    }[kind]


def rows_of(o):
    return [tuple(cell(x) for x in r) for r in o["ok"][0]["rows"]]


def nullkey(row):
    return tuple((0, 0) if v is None else (1, v) if not isinstance(v, str) else (2, v) for v in row)


def analyse(R, h, out):
    """bag oracle + construction of the Coq case; returns the Coq term or None"""
    replay = {"kind": "sql-script", "case": {"engine": "disk", "atomic": True, **{k: v for k, v in h["opts"].items() if v is not None}, "steps": h["steps"]}, "history": h}
    if not isinstance(out, list) or len(out) < len(h["steps"]):
        last = out[-1] if isinstance(out, list) and out else out
        R.property_fails(None, f"C07 the history aborted at step {len(out) if isinstance(out, list) else '?'}: {json.dumps(last)[:200]}", replay)
        return None
    bag = []
    codes = {}
    def code(row):
        if row not in codes:
            codes[row] = len(codes)
        return codes[row]
    pre = ([], [])           # observed physical state: rowsets [(id, [codes])], dvs [(rsid, [rowids])] in dv-id order
    pending = None
    csteps = []
    live_rowsets = 0
    skipc = False
    for i, ((kind, arg), st, o) in enumerate(zip(h["script"], h["steps"], out)):
        if kind == "ddl":
            if "ok" not in o:
                R.property_fails(None, f"C07 create table failed: {json.dumps(o)[:150]}", replay)
                return None
        elif kind == "insert":
            if "ok" not in o:
                R.property_fails(None, f"C07 step {i} `{st['sql'][:60]}..` failed: {json.dumps(o)[:160]}", replay)
                return None
            bag += arg
            pending = ("insert", arg)
        elif kind == "delete":
            if "ok" not in o:
                R.property_fails(None, f"C07 step {i} `{st['sql']}` failed: {json.dumps(o)[:160]}", replay)
                return None
            arg = mk_pred(*arg)[1]
            want = sum(1 for r in bag if arg(r))
            got = cell(o["ok"][0]["rows"][0][0]) if o["ok"][0]["rows"] else None
            if got != want:
                R.property_fails(None, f"C07 step {i} `{st['sql']}` reported {got} deleted rows, {want} rows matched", replay)
            pending = ("delete", [r for r in set(bag) if arg(r)], got if isinstance(got, int) and got >= 0 else 0)
            bag = [r for r in bag if not arg(r)]
        elif kind == "sleep":
            pending = ("sleep",)
        elif kind == "reopen":
            if not o.get("reopened"):
                R.property_fails(None, f"C07 step {i}: reopening failed: {json.dumps(o)[:200]}", replay)
                return None
            pending = ("reopen",)
        elif kind == "layout":
            if o.get("layout") is None:
                R.property_fails(None, f"C07 step {i}: no layout: {json.dumps(o)[:200]}", replay)
                return None
            post_rs = [(r["id"], [code(tuple(cell(x) for x in row)) for row in r["rows"]]) for r in o["layout"]]
            post_dv = sorted((d[0], r["id"], d[1]) for r in o["layout"] for d in r["dvs"])
            post = (post_rs, [(rs, d) for _, rs, d in post_dv])
            live_rowsets = len(post_rs)
            pre_ids, post_ids = [x[0] for x in pre[0]], [x[0] for x in post_rs]
            new = [x for x in post_rs if x[0] not in pre_ids]
            gone = [x for x in pre_ids if x not in post_ids]
            mx = max(pre_ids + [d[0] for d in pre[1]] + [-1]) + 1
            if pending[0] == "insert":
                parts = [[code(r) for r in pending[1]]] if len(new) <= 1 else [x[1] for x in new]
                op = "XInsert " + clist(clist(f"{c}" for c in p) for p in parts)
                nxt = new[0][0] if new else mx
            elif pending[0] == "delete":
                op = f"XDelete {clist(str(code(r)) for r in pending[1])} {pending[2]}"
                nxt = mx
            elif gone or new:
                # one or more compactor passes (a pass also runs when the database is shut down and when it is opened)
                vis = {}
                for rid, rows in pre[0]:
                    dead = {x for rs, dl in pre[1] if rs == rid for x in dl}
                    vis[rid] = [c for j, c in enumerate(rows) if j not in dead]
                groups = {x[0]: [] for x in new}
                ok = True
                pool = []            # row-sets without a visible row: which pass took them cannot be seen in its output
                for g in gone:
                    if len(new) <= 1:
                        owners = [new[0][0] if new else None]
                    elif not vis[g]:
                        pool.append(g)
                        continue
                    else:
                        owners = [x[0] for x in new if vis[g][0] in x[1]]
                    if len(owners) != 1:
                        ok = False
                        break
                    groups.setdefault(owners[0], []).append(g)
                for nid in sorted(k for k in groups if k is not None):
                    while len(groups[nid]) < 2 and pool:       # a pass compacts at least two row-sets
                        groups[nid].append(pool.pop(0))
                if pool:
                    groups[sorted(k for k in groups if k is not None)[0]] += pool
                for nid in groups:
                    groups[nid].sort()
                if not ok:
                    R.coverage["unexplained_steps"] = R.coverage.get("unexplained_steps", 0) + 1
                    skipc = True
                    groups = {}
                ops = []
                for nid in sorted(groups, key=lambda x: (x is None, x)):
                    rows = next((x[1] for x in new if x[0] == nid), [])
                    ops.append(f"XCompact {clist(str(g) for g in groups[nid])} {clist(str(c) for c in rows)}")
                    R.coverage["compactions"] = R.coverage.get("compactions", 0) + 1
                op = ops[0] if ops else "XIdle"
                for o2 in ops[1:]:
                    op = f"XSeq ({op}) ({o2})"
                nxt = new[0][0] if new else mx
            elif pending[0] == "sleep":
                op, nxt = "XIdle", mx
            else:
                op, nxt = "XReopen", mx
            cur = (op, nxt, post)
            pre = post
        elif kind == "scan":
            if "ok" not in o:
                R.property_fails(None, f"C07 step {i} `select * from t` failed: {json.dumps(o)[:160]}", replay)
                return None
            got = rows_of(o)
            if sorted(got, key=nullkey) != sorted(bag, key=nullkey):
                extra = [r for r in set(got) if got.count(r) > bag.count(r)]
                missing = [r for r in set(bag) if bag.count(r) > got.count(r)]
                R.property_fails(None, f"C07 after step {i - 2} ({h['script'][i - 2][0]}) the table holds {len(got)} rows, the bag model {len(bag)}: "
                                       f"extra {extra[:4]} missing {missing[:4]}", replay)
                return None
            op, nxt, post = cur
            if not skipc:
                csteps.append(f"mk_step ({op}) {nxt} ({clist(f'({i_}, {clist(str(c) for c in rs)})' for i_, rs in post[0])}, "
                              f"{clist(f'({rs}, {clist(str(d) for d in dl)})' for rs, dl in post[1])}) {clist(str(c) for c in sorted(code(r) for r in got))}")
        elif kind == "oscan":
            if "ok" not in o:
                R.property_fails(None, f"C07 step {i} ordered scan failed: {json.dumps(o)[:160]}", replay)
                continue
            got = rows_of(o)
            keys = [r[0] for r in got]
            klass = None
            if sorted(got, key=nullkey) != sorted(bag, key=nullkey):
                R.property_fails(None, f"C07 step {i}: ordered scan returns {len(got)} rows, the bag model {len(bag)}", replay)
            elif keys != sorted(keys):
                R.property_fails(klass, f"C07 step {i}: `select * from t order by a` is not in key order with {live_rowsets} live row-set(s): {keys[:10]}..", replay)
    # keys: rank of a per code
    avals = sorted({r[0] for r in codes})
    rank = {a: j for j, a in enumerate(avals)}
    keys = [0] * len(codes)
    for r, c in codes.items():
        keys[c] = rank[r[0]]
    return f"mk_case {cbool(h['pk'])} {clist(str(k) for k in keys)} {clist(csteps)}"


def run(R, only=None):
    R.prove()
    build_harness()
    n = 160 if R.tier == "quick" else 2500
    hs = only or [gen_history(R.rng, R.tier) for _ in range(n)]
    for h in hs:
        h["script"] = [tuple(x) for x in h["script"]]
        for k, a in h["script"]:
            if k == "insert":
                a[:] = [tuple(r) for r in a]
    outs = run_harness("sql", [{"engine": "disk", "atomic": True, **{k: v for k, v in h["opts"].items() if v is not None}, "steps": h["steps"]} for h in hs], jobs=16)
    terms, usable = [], []
    kinds = {}
    for h, o in zip(hs, outs):
        for k, _ in h["script"]:
            kinds[k] = kinds.get(k, 0) + 1
        t = analyse(R, h, o)
        if t is not None:
            terms.append(t)
            usable.append((h, [[(r["id"], len(r["rows"]), [(d[0], len(d[1])) for d in r["dvs"]]) for r in x["layout"]]
                               for x in o if isinstance(x, dict) and x.get("layout") is not None]))
    failing = coq_eval("C07", HEADER, terms, per_file=12)
    names = {1: "fresh ids / unique row-set ids (model invariant)", 2: "row-sets after the step = model", 3: "delete vectors after the step = model",
             4: "DELETE count / compaction output = model", 5: "SELECT * = model scan"}
    if failing:
        i = sorted(failing)[0]
        c = failing[i][0]
        h, lay = usable[i]
        R.correspondence_broken(f"C07 step {c // 10}: {names.get(c % 10, c)}", json.dumps({"history": h, "observed_layouts": lay, "term": terms[i]}))
    R.coverage.update({
        "evaluations": len(terms), "distinct_nontrivial": sum(1 for h in hs if sum(1 for k, _ in h["script"] if k in ("delete", "sleep", "reopen")) >= 2),
        "rule": "histories of 4-22 steps over {insert 1-60 rows, delete where p (8 predicate kinds incl. all/none/NULL), compactor+vacuum pass "
                "(paused clock advanced 2.5 s), shutdown+reopen}; keyed (unique or duplicate keys) and unkeyed tables, nullable column, optional "
                "VARCHAR column; block size 64..4096/default, row-set size 600..20000/default, checksum on/off; after every step the physical "
                "layout (hook), SELECT * and (keyed) ORDER BY scan; non-trivial = at least two of delete/compaction/reopen",
        "samples": [hs[0]["steps"][:6]], "step_distribution": kinds, "model_vs_impl_disagreements": len(failing),
    })
    R.assumptions += ["rows are abstract in the model (codes); predicates are evaluated by the harness; the compactor's choice of row-sets (by file size) "
                      "is taken from the observation, the theorems hold for every choice",
                      "the crash-free part only: C04 covers crashes between the steps"]


def replay(R, path):
    d = json.load(open(path))
    h = d.get("history") or json.loads(d["detail"])["history"]
    run(R, only=[h])
    return R.finish()
