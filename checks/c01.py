"""C01 — optimisation never changes a query's answer.

  (i)   translator + proofs: tools/translate_rules.py reads every rw!(..) of src/planner/rules/*.rs on
        every run, cross-checks its reading with the compiled rule objects (hook rule_inventory) and
        regenerates Gen/Rules.v + Gen/ExprObligations.v; Props/C01.v re-proves `sound` for every
        expression rule without a counterexample and `refuted` for the others;
        likewise the plan rules of plan.rs that have a meaning in Model/PlanSem.v get `psound` / `prefuted` obligations;
  (ii)  the refuted rules must be exactly the ones listed in the known finding; each rule's
        left-hand side is instantiated over a table of all small NULL / boolean / integer
        combinations and run with the optimiser on and off;
  (iii) end-to-end differential: generated queries (C02's grammar, outer joins, LIMIT below filters,
        subqueries), optimiser on vs off, both engines, real and mocked statistics: same bag, same
        key sequence under ORDER BY.
"""
import json
import os
import re

from .common import *  # noqa: F401,F403
from . import c02

sys.path.insert(0, os.path.join(VERIF, "tools"))
import translate_rules as TR  # noqa: E402

GEN = os.path.join(COQ, "Gen")


def sql_of(x, ty):
    """SQL text of a pattern instance; pattern variables are already replaced by column names / literals"""
    if isinstance(x, str):
        return x
    op, a = x
    if op == "if":
        return f"(case when {sql_of(a[0], ty)} then {sql_of(a[1], ty)} else {sql_of(a[2], ty)} end)"
    if op == "isnull":
        return f"({sql_of(a[0], ty)} is null)"
    if op == "not":
        return f"(not {sql_of(a[0], ty)})"
    if op == "-" and len(a) == 1:
        return f"(- {sql_of(a[0], ty)})"
    return f"({sql_of(a[0], ty)} {op} {sql_of(a[1], ty)})"


def var_types(x, want, acc):
    """'bool' / 'int' for each pattern variable from the operators above it"""
    if isinstance(x, str):
        if x.startswith("?"):
            acc.setdefault(x, want or "int")
        return acc
    op, a = x
    if op in ("and", "or", "not"):
        for y in a:
            var_types(y, "bool", acc)
    elif op == "if":
        var_types(a[0], "bool", acc)
        var_types(a[1], want, acc)
        var_types(a[2], want, acc)
    elif op in ("=", "<>", ">", "<", ">=", "<="):
        for y in a:
            var_types(y, None, acc)
    else:
        for y in a:
            var_types(y, "int", acc)
    return acc


def subst(x, m):
    if isinstance(x, str):
        return m.get(x, x)
    return (x[0], [subst(y, m) for y in x[1]])


def match(p, t, b):
    if isinstance(p, str):
        if p.startswith("?"):
            if p in b:
                return b[p] == t
            b[p] = t
            return True
        return p == t
    return not isinstance(t, str) and p[0] == t[0] and len(p[1]) == len(t[1]) and all(match(x, y, b) for x, y in zip(p[1], t[1]))


def run(R, only=None):
    build_harness()
    inv = run_harness("rules", [{}], jobs=1)[0]
    info = {}

    def translate():
        info.update(TR.translate(inv, GEN))
    R.prove(translate=translate)
    for pr in info.get("problems", []):
        R.correspondence_broken("C01 translator reading = compiled rule objects", pr)
    if info.get("unknown_conditions"):
        R.correspondence_broken("C01 side conditions understood by the translator", f"rules with conditions the translator does not know: {info['unknown_conditions']}")
    # the rules whose obligations were proved are pinned (checks/c01_rules_expected.json): a rule that drops out of the model (a side
    # condition the translator cannot read, an operator without a meaning) is an obligation that no longer checks, not a smaller theorem
    exp_path = os.path.join(VERIF, "checks", "c01_rules_expected.json")
    if os.environ.get("VERIF_WRITE_EXPECTED") == "1":
        json.dump({k: sorted(info.get(k, [])) for k in ("expr_sound", "plan_sound", "plan_instances_sound")}, open(exp_path, "w"), indent=1)
    expected = json.load(open(exp_path))
    src_all = {r[1]: r for r in TR.parse_source()}
    for k in ("expr_sound", "plan_sound", "plan_instances_sound"):
        have = set(info.get(k, [])) | set(info.get("expr_refuted", {})) | set(info.get("plan_refuted", {}))
        for name in expected.get(k, []):
            if name not in have and not info.get("problems"):
                r = src_all.get(name.split(" @ ")[0])
                now = f"{' '.join(r[2].split())} => {' '.join((r[3] or '<applier>').split())} if {r[4]}" if r else "no such rule in the source"
                R.correspondence_broken(f"C01 obligation of rule `{name}` ({k})", f"the rule was proved sound in the model; as the source reads now ({now}) it has no obligation "
                                        "any more (a side condition or operator the translator gives no meaning to)")
    kf = [f for f in known_findings("C01") if f.get("class") == "KF_C01_null_unsound_expr_rules"]
    allowed = set(kf[0].get("rules", [])) if kf else set()
    src = {r[1]: r for r in TR.parse_source()}
    for name, wit in info.get("expr_refuted", {}).items():
        _, _, lhs, rhs, conds = src[name]
        R.property_fails("KF_C01_null_unsound_expr_rules" if name in allowed else None,
                         f"C01 rewrite rule `{name}`: {lhs} => {rhs} changes the value for {wit} (refuted in the model: Gen/ExprObligations.v)",
                         {"kind": "rule-instance", "rule": name, "lhs": lhs, "rhs": rhs, "instantiation": {k: v for k, v in wit.items()}})
    # plan rules refuted in the model (Gen/PlanObligations.v): each must be listed by a known finding
    plan_allowed = {r: f["class"] for f in known_findings("C01") if f.get("status") == "open" for r in f.get("rules", [])
                    if f.get("class") != "KF_C01_null_unsound_expr_rules"}
    for name, wit in info.get("plan_refuted", {}).items():
        _, _, lhs, rhs, conds = src[name]
        R.property_fails(plan_allowed.get(name),
                         f"C01 plan rewrite rule `{name}`: {' '.join(lhs.split())} => {' '.join(rhs.split())} changes the number of rows returned for the binding "
                         f"{wit} (refuted in the model: Gen/PlanObligations.v)",
                         {"kind": "rule-instance", "rule": name, "lhs": lhs, "rhs": rhs, "binding": wit})
    # ---- ground instances of the modelled plan rules: executors vs plan semantics, and lhs vs rhs on the executors
    from . import planinst
    pstats = planinst.run(R, TR, info, src)
    # ---- rule instances on the real engine: optimiser on vs off -------------------------------------------
    ints, bools = ["null", "0", "1", "-1", "2"], ["null", "true", "false"]
    rows = [(a, b, c, p, q) for a in ints[:4] for b in ints[:4] for c in ["null", "0", "2"] for p in bools for q in bools]
    setup = [{"sql": "create table t(i1 int, i2 int, i3 int, b1 boolean, b2 boolean)"},
             {"sql": "insert into t values " + ", ".join("(" + ", ".join(r) + ")" for r in rows)}]
    jobs, meta = [], []
    for name, (f, _, lhs, rhs, conds) in sorted(src.items()):
        if name not in info.get("expr_sound", []) and name not in info.get("expr_refuted", {}):
            continue
        l = TR.parse_sx(lhs)
        tys = var_types(l, None, {})
        cond_vars = {a for _, args in conds for a in args}
        ic, bc = iter(["i1", "i2", "i3"]), iter(["b1", "b2"])
        m = {}
        ok = True
        for v, ty in sorted(tys.items()):
            if v in cond_vars:
                continue
            try:
                m[v] = next(bc) if ty == "bool" else next(ic)
            except StopIteration:
                ok = False
        if not ok:
            continue
        lits = [{}]
        if cond_vars:
            lits = []
            cv = sorted(cond_vars)
            for vals in [(2, 1), (1, 1), (1, 2), (0, 0), (-1, 2)]:
                env = {v: vals[i % 2] for i, v in enumerate(cv)}
                if all(TR.cond_holds(env, c) for c in conds):
                    lits.append({v: str(x) for v, x in env.items()})
        for lm in lits[:3]:
            expr = sql_of(subst(l, {**m, **lm}), tys)
            q = f"select i1, i2, i3, b1, b2, {expr} from t"
            jobs.append({"engine": "mem", "steps": setup + [{"sql": q}, {"sql": "pragma disable_optimizer"}, {"sql": q},
                                                            {"sql": "pragma enable_optimizer"}, {"disable_rules": sorted(allowed)}, {"sql": q}]})
            meta.append((name, q, subst(l, {**m, **lm})))
    outs = run_harness("sql", jobs, jobs=16)
    refuted_names = set(info.get("expr_refuted", {}))
    parsed = {n: TR.parse_sx(src[n][2]) for n in refuted_names}
    inst_diff = 0
    for (name, q, term), j, o in zip(meta, jobs, outs):
        rep = {"kind": "sql-script", "case": j}
        if not isinstance(o, list) or len(o) < len(j["steps"]):
            R.property_fails("KF_C14_overflow_panics" if "overflow" in json.dumps(o) else None, f"C01 instance of rule {name} `{q}` aborted: {json.dumps(o)[-160:]}", rep)
            continue
        on, off, on2 = o[-6], o[-4], o[-1]
        if "ok" not in on or "ok" not in off:
            # (when the un-optimised plan itself does not execute — e.g. no kernel for a NULL-typed operand — there is
            #  no reference answer: that is C17's subject)
            if "ok" in off and "ok" not in on:
                R.property_fails("KF_C14_overflow_panics" if "overflow" in json.dumps([on, off]) else None,
                                 f"C01 instance of rule {name} `{q}`: optimiser on {'ok' if 'ok' in on else json.dumps(on)[:80]}, off {'ok' if 'ok' in off else json.dumps(off)[:80]}", rep)
            continue
        a = sorted(json.dumps(r) for r in on["ok"][0]["rows"])
        b = sorted(json.dumps(r) for r in off["ok"][0]["rows"])
        if a != b:
            inst_diff += 1
            # which unsound rule can fire on this expression (on any sub-term)?

            def subterms(t):
                yield t
                if not isinstance(t, str):
                    for y in t[1]:
                        yield from subterms(y)
            hit = name in refuted_names or any(match(p, st, {}) for p in parsed.values() for st in subterms(term))
            diff = [(x, y) for x, y in zip(a, b) if x != y][:2]
            # the known finding is identified by its rules: without them the difference has to disappear
            a2 = sorted(json.dumps(r) for r in on2["ok"][0]["rows"]) if "ok" in on2 else None
            note = ""
            if hit and a2 != b:
                hit, note = False, " — and the difference persists when the optimiser runs without the rules of the known finding"
            R.property_fails("KF_C01_null_unsound_expr_rules" if hit else None,
                             f"C01 `{q}` (an instance of rule {name}) differs with the optimiser on / off, e.g. {diff}{note}", rep)
    kf_rules = sorted({r for f in known_findings("C01") if f.get("status") == "open" for r in f.get("rules", [])})
    tail_steps = lambda q: [{"explain": q}, {"sql": q}, {"sql": "pragma disable_optimizer"}, {"sql": q},
                            {"sql": "pragma enable_optimizer"}, {"disable_rules": kf_rules}, {"sql": q}]
    # ---- end-to-end differential ------------------------------------------------------------------------------
    n = 500 if R.tier == "quick" else 8000
    cases = []
    for i in range(n):
        a_b, b_b = c02.gen_db(R.rng)
        q, ks, tags = c02.gen_query(R.rng)
        q = q[0] if isinstance(q, tuple) else q
        if R.rng.random() < 0.15:
            q, ks, tags = R.rng.choice([
                ("select x, y from (select x, y from a limit 3) t where y > 0", None, {"filter-over-limit"}),
                ("select x, y from (select x, y from a order by x limit 2) t where y > 1", None, {"filter-over-limit"}),
                ("select a.x, b.z from a left join b on a.x = b.x and b.z > 1", None, {"join", "left", "pushable"}),
                ("select a.x, b.z from a left join b on a.x = b.x where b.z is null", None, {"join", "left", "pushable"}),
                ("select a.x, b.z from a right join b on a.x = b.x and a.y > 0", None, {"join", "right", "pushable"}),
                ("select x from a where (y > 1 and y < 1) is null", None, {"conflict"}),
                ("select x, y * 0, y - y, y = y from a", None, {"null-rules"}),
                ("select x from a where not (x > 1 and y > 1)", None, {"demorgan"}),
                ("select x, case when not (y > 0) then 1 else 2 end from a", None, {"null-rules"}),
                ("select count(*) from a where x + 1 > 2 and x + 1 > 1", None, {"fold"}),
                # range conjuncts whose bounds are literals of different types (INT / DECIMAL / BIGINT): the folding rules compare the constants
                ("select x, y from a where x > 1 and x > 0.5", None, {"fold", "mixed-literals"}), ("select x, y from a where x > 0.5 and x > 1", None, {"fold", "mixed-literals"}),
                ("select x, y from a where x < 3 and x < 1.5", None, {"fold", "mixed-literals"}), ("select x, y from a where x >= 0.5 and x < 3", None, {"fold", "mixed-literals"}),
                ("select x, y from a where x > 0.5 and x < 2", None, {"fold", "mixed-literals"}), ("select x, y from a where y > -3000000000 and y > 0", None, {"fold", "mixed-literals"}),
                ("select x, y from a where y <= 3000000000 and y <= 1", None, {"fold", "mixed-literals"}),
                # one query per modelled plan rule family (filters above semi / anti / inner joins, stacked filters, filter above ORDER BY)
                ("select x, y from a where not exists (select 1 from b where b.x = a.x) and y > 1", None, {"anti", "plan-rule"}),
                ("select x, y from a where exists (select 1 from b where b.x = a.x) and y > 1", None, {"semi", "plan-rule"}),
                ("select x, y from a where x in (select x from b where z > 1) and y > 0", None, {"semi", "plan-rule"}),
                ("select t.x, t.y from (select a.x, a.y, b.z from a join b on a.x = b.x) t where t.y > 1 and t.z > 0", None, {"join", "plan-rule"}),
                ("select x, y from (select x, y from (select x, y from a where x > 0) u where y > 0) t where x < 3", None, {"plan-rule"}),
                ("select x, y from (select x, y from a order by y, x) t where x > 1", None, {"plan-rule"}),
                ("select a.x, b.z, c.z from a join b on a.x = b.x join b c on b.z = c.z where a.y > 0", None, {"join", "plan-rule"}),
                # several equality conjuncts (the 2- / 3-key hash-join rules), one of them reading both inputs on one side
                ("select a.x, b.z from a join b on a.x = b.x and a.y = b.z and a.x = a.y + b.z", None, {"join", "plan-rule"}),
                ("select a.x, b.z from a left join b on a.x = b.x and a.y = b.z and a.x + b.x = b.z", None, {"join", "left", "plan-rule"}),
                ("select a.x, b.z from a join b on a.x = b.x and a.x * b.z = a.y", None, {"join", "plan-rule"}),
                ("select a.x, b.z from a join b on a.x = b.x and a.y = b.z and a.x + a.y = b.x + b.z", None, {"join", "plan-rule"}),
            ])
        engine = R.rng.choice(["mem", "disk"])
        steps = [{"sql": "create table a(x int, y int, s varchar)"}, {"sql": "create table b(x int, z int)"}]
        for batch in a_b:
            steps.append({"sql": "insert into a values " + ", ".join("(" + ", ".join(c02.lit(v) for v in r) + ")" for r in batch)})
        for batch in b_b:
            steps.append({"sql": "insert into b values " + ", ".join("(" + ", ".join(c02.lit(v) for v in r) + ")" for r in batch)})
        if R.rng.random() < 0.3:
            steps.append({"sql": f"set mock_rowcount_a = {R.rng.choice([0, 1, 1000, 100000])}"})
            steps.append({"sql": f"set mock_rowcount_b = {R.rng.choice([0, 1, 1000, 100000])}"})
        steps += tail_steps(q)
        cases.append({"engine": engine, "steps": steps, "q": q, "ks": ks, "tags": tags, "a": a_b, "b": b_b})
    # keyed tables (disk: key-range scans pushed into the scan, storage order) and partially ordered inputs
    for i in range(120 if R.tier == "quick" else 1500):
        rng = R.rng
        keys = [rng.randint(0, 12) for _ in range(rng.randint(2, 12))]
        if rng.random() < 0.6:
            keys = list(dict.fromkeys(keys))
        rows = [(k, rng.choice([None, 0, 1, 2, 3])) for k in keys]
        c = rng.choice(keys + [rng.randint(-1, 13)])
        c2 = rng.choice(keys)
        lo, hi = min(c, c2), max(c, c2)
        q, ks = rng.choice([
            (f"select k, v from p where k <= {c}", None), (f"select k, v from p where {c} >= k", None), (f"select k, v from p where k < {c}", None),
            (f"select k, v from p where k >= {c}", None), (f"select k, v from p where {c} <= k", None), (f"select k, v from p where k > {c}", None),
            (f"select k, v from p where k >= {lo} and k <= {hi}", None), (f"select k, v from p where {hi} >= k and {lo} <= k and v > 0", None),
            (f"select k, v from p where k = {c}", None), (f"select count(*) from p where k <= {c} and v is not null", None),
            # several bounds on the key in one conjunction (the range analysis has to combine them)
            (f"select k, v from p where k = {hi} and k > {lo}", None), (f"select k, v from p where k > {lo} and k = {hi}", None),
            (f"select k, v from p where k = {lo} and k < {hi}", None), (f"select k, v from p where k >= {lo} and k > {c2}", None),
            (f"select k, v from p where k < {hi} and k <= {c}", None), (f"select k, v from p where k > {lo} and k >= {c} and k < {hi + 2}", None),
            (f"select k, v from p where k = {c} and k = {c2}", None), (f"select k, v from p where k >= {lo} and k = {c2} and k <= {hi}", None),
            # bounds that are not INT constants: they must not be pushed into the scan
            (f"select k, v from p where k > cast({c} as bigint)", None), (f"select k, v from p where k <= {c}.5", None),
            (f"select k, v from p where k = cast({c2} as bigint) and v is not null", None),
            # a composite key declared against the column order (the storage sorts on the key columns in column order)
            ("select a, b, v from cc order by b", [(1, False)]), ("select a, b, v from cc order by b, a", [(1, False), (0, False)]),
            ("select a, b, v from cc order by a", [(0, False)]), ("select a, b, v from cc order by a, b", [(0, False), (1, False)]),
            ("select b, count(*) from cc group by b", None), ("select a, count(*) from cc group by a", None),
            ("select k, v from p order by k, v", [(0, False), (1, False)]), ("select k, v from p order by k, v desc", [(0, False), (1, True)]),
            ("select k, v from p order by k", [(0, False)]),
            ("select k, v from (select k, v from p order by k) t order by k, v", [(0, False), (1, False)]),
            ("select k, v, count(*) from (select k, v from p order by k) t group by k, v", None),
            ("select k, v, count(*) from p group by k, v", None),
            ("select x, y from (select x, y from a order by x) t order by x, y", [(0, False), (1, False)]),
            ("select x, y, count(*) from (select x, y from a order by x) t group by x, y", None),
            ("select p.k, p.v, q.v from p join p q on p.k = q.k and p.v = q.v", None),
            # joins on a primary key with a residual condition over both sides (the cost model prefers a hash join on a key)
            ("select p.k, p.v, a.x, a.y from p left join a on p.k = a.x and p.v < a.y", None),
            ("select a.x, a.y, p.k, p.v from a left join p on a.x = p.k and a.y < p.v", None),
            ("select a.x, a.y, p.k, p.v from a left join p on a.x = p.k and a.y <> p.v", None),
            ("select p.k, p.v, a.x, a.y from p join a on p.k = a.x and p.v < a.y", None),
            ("select p.k, a.y from p join a on p.k = a.x where a.y >= p.v or p.v is null", None),
            ("select a.x, a.y from a where exists (select 1 from p where p.k = a.x and p.v > a.y)", None),
            # ORDER BY over a join whose one input arrives ordered (the keyed scan): the order analysis must not credit the join with it
            ("select a.x, p.k from a left join p on a.x = p.k order by p.k", [(1, False)]), ("select p.k, a.x from p left join a on a.x = p.k order by p.k", [(0, False)]),
            ("select a.x, p.k, p.v from a join p on a.x = p.k order by p.k, a.x", [(1, False), (0, False)]),
            ("select a.x, p.k from a left join p on a.x = p.k order by p.k desc", [(1, True)]),
            # two keyed tables (a merge join on disk) under ORDER BY either side's key
            ("select p.k, q.k from p left join q on p.k = q.k order by q.k", [(1, False)]), ("select p.k, q.k from p left join q on p.k = q.k order by p.k", [(0, False)]),
            ("select p.k, q.k, q.w from p join q on p.k = q.k order by q.k", [(1, False)]), ("select p.k, q.k from p left join q on p.k = q.k order by q.k limit 3", [(1, False)]),
        ])
        a_b, b_b = c02.gen_db(rng)
        steps = [{"sql": "create table p(k int primary key, v int)"}, {"sql": "create table a(x int, y int, s varchar)"},
                 {"sql": "create table cc(a int, b int, v int, primary key(b, a))"}, {"sql": "create table q(k int primary key, w int)"}]
        qk = rng.sample(range(0, 13), rng.randint(0, 6))
        if qk:
            steps.append({"sql": "insert into q values " + ", ".join(f"({k}, {k % 4})" for k in qk)})
        ccrows = [(rng.randint(0, 5), rng.randint(0, 3), rng.randint(0, 9)) for _ in range(rng.randint(2, 9))]
        for part in (ccrows[: len(ccrows) // 2], ccrows[len(ccrows) // 2:]):
            if part:
                steps.append({"sql": "insert into cc values " + ", ".join(f"({x}, {y}, {z})" for x, y, z in part)})
        for part in (rows[: len(rows) // 2], rows[len(rows) // 2:]):
            if part:
                steps.append({"sql": "insert into p values " + ", ".join(f"({k}, {c02.lit(v)})" for k, v in part)})
        for batch in a_b:
            steps.append({"sql": "insert into a values " + ", ".join("(" + ", ".join(c02.lit(v) for v in r) + ")" for r in batch)})
        steps += tail_steps(q)
        cases.append({"engine": rng.choice(["disk", "disk", "mem"]), "steps": steps, "q": q, "ks": ks, "tags": {"keyed"}, "a": a_b, "b": []})
    # aggregation over ordered inputs (the sort-aggregation rule): groups of several keys whose rows are NOT adjacent unless the input is
    # ordered on all of them — few distinct values, many duplicates, orders on a prefix / a suffix / all of the group keys
    for i in range(40 if R.tier == "quick" else 500):
        rng = R.rng
        q = rng.choice([
            "select x, y, count(*) from (select x, y from a order by x) t group by x, y", "select x, y, sum(y), min(x) from (select x, y from a order by x) t group by x, y",
            "select y, x, count(*) from (select x, y from a order by y) t group by y, x", "select x, y, count(*) from (select x, y from a order by x, y) t group by x, y",
            "select x, count(*) from (select x, y from a order by x, y) t group by x", "select y, count(*) from (select x, y from a order by x, y) t group by y",
            "select x, y, count(*) from (select x, y from a order by y) t group by x, y", "select x, y, count(*) from (select x, y from a order by x desc) t group by x, y",
            "select k, v, count(*) from p group by k, v", "select k, v, sum(v) from p group by k, v", "select v, k, count(*) from p group by v, k",
            "select k, count(*) from p group by k", "select k, v, count(*) from (select k, v from p order by k) t group by k, v",
            # two inputs ordered on the join key (a merge join), NULL and duplicate keys on both sides
            "select t.x, t.y, u.x, u.y from (select x, y from a order by x) t join (select x, y from a order by x) u on t.x = u.x",
            "select t.x, u.k from (select x, y from a order by x) t join (select k, v from p order by k) u on t.x = u.k",
            "select t.x, t.y, u.x from (select x, y from a order by x) t left join (select x, y from a where y > 0 order by x) u on t.x = u.x",
            "select t.y, u.v from (select x, y from a order by y) t left join (select k, v from p order by v) u on t.y = u.v",
        ])
        arows = [(rng.choice([0, 1, None]), rng.choice([0, 1, 2])) for _ in range(rng.randint(4, 10))]
        prows = [(rng.choice([0, 1, 2]), rng.choice([0, 1])) for _ in range(rng.randint(4, 10))]
        steps = [{"sql": "create table a(x int, y int, s varchar)"}, {"sql": "create table p(k int primary key, v int)"}]
        for part in (arows[: len(arows) // 2], arows[len(arows) // 2:]):
            steps.append({"sql": "insert into a values " + ", ".join(f"({c02.lit(x)}, {c02.lit(y)}, 'r')" for x, y in part)})
        for part in (prows[: len(prows) // 2], prows[len(prows) // 2:]):
            steps.append({"sql": "insert into p values " + ", ".join(f"({k}, {v})" for k, v in part)})
        steps += tail_steps(q)
        cases.append({"engine": rng.choice(["disk", "disk", "mem"]), "steps": steps, "q": q, "ks": None, "tags": {"ordered-agg"}, "a": [arows], "b": []})
    # join keys of different numeric types on the two sides (INT = BIGINT, INT = SMALLINT): `=` compares by value, so must the
    # hash / merge join the optimiser chooses
    for i in range(60 if R.tier == "quick" else 800):
        rng = R.rng
        jt = rng.choice(["join", "join", "left join", "right join", "full join"])
        q = rng.choice([
            f"select a.x, w.k from a {jt} w on a.x = w.k", f"select a.x, w.z from a {jt} w on a.y = w.z", f"select a.x, w.k from a {jt} w on w.k = a.x",
            f"select a.x, w.k, w.z from a {jt} w on a.x = w.k and a.y = w.z", "select a.x, w.v from a join w on a.x = w.k and a.y < w.v",
            "select a.x, w.v from a left join w on a.x = w.k and a.y < w.v", "select x, y from a where exists (select 1 from w where w.k = a.x)",
            "select x, y from a where not exists (select 1 from w where w.k = a.x and w.v > a.y)", "select x, y from a where not exists (select 1 from w where w.z = a.y)",
            "select p.k, pw.k from p join pw on p.k = pw.k", "select p.k, pw.v from p left join pw on p.k = pw.k", "select p.k, pw.v from p full join pw on p.k = pw.k",
            "select a.x, w.k from a join w on a.x + 1 = w.k", "select a.x, count(*) from a join w on a.x = w.k group by a.x",
            "select a.x, w.k from a, w where a.x = w.k and w.z > 0", "select a.x, pw.v from a join pw on a.x = pw.k where pw.k > 0",
        ])
        a_b, _ = c02.gen_db(rng)
        dom = [None, 0, 1, 2, 3]
        wrows = [(rng.choice(dom), rng.choice(dom), rng.choice(dom)) for _ in range(rng.randint(0, 6))]
        pk = rng.sample(range(6), rng.randint(0, 5))
        pwk = rng.sample(range(6), rng.randint(0, 5))
        steps = [{"sql": "create table a(x int, y int, s varchar)"}, {"sql": "create table w(k bigint, z smallint, v int)"},
                 {"sql": "create table p(k int primary key, v int)"}, {"sql": "create table pw(k bigint primary key, v int)"}]
        for batch in a_b:
            steps.append({"sql": "insert into a values " + ", ".join("(" + ", ".join(c02.lit(v) for v in r) + ")" for r in batch)})
        if wrows:
            steps.append({"sql": "insert into w values " + ", ".join("(" + ", ".join(c02.lit(v) for v in r) + ")" for r in wrows)})
        for nm, ks_ in (("p", pk), ("pw", pwk)):
            for part in (ks_[: len(ks_) // 2], ks_[len(ks_) // 2:]):
                if part:
                    steps.append({"sql": f"insert into {nm} values " + ", ".join(f"({k}, {k % 3})" for k in part)})
        steps += tail_steps(q)
        tags = {"join", "mixed-width"} | ({"right"} if "right join" in q else set()) | ({"full"} if "full join" in q else set())
        cases.append({"engine": rng.choice(["disk", "mem"]), "steps": steps, "q": q, "ks": None, "tags": tags, "a": a_b, "b": []})
    outs = run_harness("sql", [{"engine": c["engine"], "steps": c["steps"]} for c in cases], jobs=16)
    kinds, compared = {}, 0
    kf_attr = [0]
    for c, o in zip(cases, outs):
        rep = {"kind": "sql-script", "case": {"engine": c["engine"], "steps": c["steps"]}}
        for t in c["tags"]:
            kinds[t] = kinds.get(t, 0) + 1
        if not isinstance(o, list) or len(o) < len(c["steps"]):
            continue                   # aborts while planning are C17's subject
        plan, on, off, on2 = o[-7], o[-6], o[-4], o[-1]
        if "ok" not in off:
            continue                   # the bound plan itself does not run: nothing to compare with
        txt = json.dumps(on)
        if "ok" not in on:
            klass = ("KF_C17_subquery_not_executable" if "(select" in c["q"] and ("not found from input" in txt or "Apply is not supported" in txt) else
                     "KF_C11_nl_right_full_todo" if "not yet implemented" in txt or ({"right", "full"} & c["tags"]) else
                     "KF_C14_overflow_panics" if "overflow" in txt else None)
            R.property_fails(klass, f"C01 `{c['q']}` ({c['engine']}) runs with the optimiser off but fails with it on: {txt[:160]}", rep)
            continue
        compared += 1
        a = [json.dumps(r) for r in on["ok"][0]["rows"]]
        b = [json.dumps(r) for r in off["ok"][0]["rows"]]
        same = sorted(a) == sorted(b)
        if c["ks"] is not None:
            key = c02.sort_key(c["ks"])
            ka = [key([None if v is None else v[1] for v in json.loads(r)]) for r in a]
            kb = [key([None if v is None else v[1] for v in json.loads(r)]) for r in b]
            same = ka == kb and (same or "limit" in c["q"] or "offset" in c["q"])
        if not same:
            bx = [r[0] for bt in c["b"] for r in bt]
            ax = [r[0] for bt in c["a"] for r in bt]
            klass = None
            if "in" in c["tags"] and "neg" in c["tags"] and (None in bx or None in ax):
                klass = "KF_C02_not_in_null"
            elif "pushable" in c["tags"]:
                klass = "KF_C01_outer_join_condition_pushdown"
            elif "filter-over-limit" in c["tags"]:
                klass = "KF_C01_filter_below_limit"
            elif {"null-rules", "conflict"} & c["tags"]:
                klass = "KF_C01_null_unsound_expr_rules"
            note = ""
            if klass == "KF_C01_outer_join_condition_pushdown":
                # a known finding is identified by its rules: the difference must disappear when the optimiser runs without them
                # (not applied to the filter-below-LIMIT shapes: ORDER BY x LIMIT n over tied keys keeps different tied rows in the
                #  optimised top-N and in the un-optimised order + limit whatever the rules)
                a2 = sorted(json.dumps(r) for r in on2["ok"][0]["rows"]) if "ok" in on2 else None
                if a2 != sorted(b) and not (a2 is None and ({"right", "full"} & c["tags"])):     # (nested-loop RIGHT / FULL: not implemented)
                    klass, note = None, " — and it persists when the optimiser runs without the rules of the known findings"
                else:
                    kf_attr[0] += 1
            R.property_fails(klass, f"C01 `{c['q']}` ({c['engine']}): optimiser on {sorted(a)[:4]}.. ({len(a)} rows), off {sorted(b)[:4]}.. ({len(b)} rows){note}", rep)
    R.coverage.update({
        "evaluations": len(jobs) + compared, "distinct_nontrivial": len(info.get("expr_sound", [])) + len(info.get("expr_refuted", {})),
        "rule": "every rw!(..) of src/planner/rules/{expr,plan,order,range}.rs is read on every run and compared with the compiled rule objects; each of the "
                "expression rules gets a generated Coq obligation (sound for all values by the generic tactic, or refuted with the counterexample found over "
                "{NULL,true,false,-1,0,1,2}); every expression rule is instantiated over a 432-row table of all small combinations and run with the optimiser "
                "on and off; end-to-end: C02's query grammar plus 10 directed shapes (filter over LIMIT, outer joins with one-sided conditions, NULL-sensitive "
                "expressions), both engines, mocked row counts in 30% of the cases",
        "samples": [jobs[0]["steps"][-1]["sql"] if jobs else "", cases[0]["q"]],
        "rules_total": info.get("n_rules"), "expression_rules_proved_sound": len(info.get("expr_sound", [])),
        "expression_rules_refuted": sorted(info.get("expr_refuted", {})),
        "plan_rules_proved_sound": info.get("plan_sound", []), "plan_rule_instances_proved_sound": info.get("plan_instances_sound", []),
        "plan_rules_refuted": sorted(info.get("plan_refuted", {})),
        "plan_rules_not_proved": sorted(set(info.get("plan_rules", [])) - set(info.get("plan_sound", [])) - set(info.get("plan_refuted", {}))),
        "plan_rule_instances": pstats, "rule_instances_differing": inst_diff, "differences_attributed_to_known_rules_by_disabling_them": kf_attr[0], "query_kind_distribution": kinds, "queries_compared": compared,
    })
    R.coverage["trusted_base"].append("tools/translate_rules.py (regex reading of rw!(..) and of the pushdown(..) helper; its reading of names and patterns is "
                                      "compared with the compiled rule objects on every run; its reading of the side conditions is trusted)")
    R.assumptions += ["31 plan rewrite rules (plus 7 join-type instances) have Coq obligations under the bag semantics of Model/PlanSem.v (25 + 7 proved sound for "
                      "every binding, incl. the ten rules that turn an equi-join into a hash join, back, and swap its inputs; 6 refuted); the other plan rules "
                      "(projection pushdown, merge join selection, sub-query un-nesting, index scans, order and range rules) are not proved: they are covered by the end-to-end differential and, for buildability, by C17's theorems; "
                      "the side condition not_depend_on is read as: the columns the expression mentions are disjoint from the plan's schema; "
                      "egg's saturation and extraction are trusted to return a member of the rewrite closure", "soundness is modulo evaluation errors and ill-typed "
                      "instances (C14 / C16); floats, decimals, strings and dates are outside the rule theorems' value domain"]


def replay(R, path):
    run(R)
    return R.finish()
