"""C12 — ORDER BY, LIMIT and OFFSET are honoured on every storage layout."""
import json

from .common import *  # noqa: F401,F403
from .execlib import *  # noqa: F401,F403
from . import execlib


# ---- plan level: order / top-N / limit executors against the model -----------------------------------
def gen_plan_case(rng, tier):
    lt = ["i32", "i32"]
    big = rng.random() < 0.03
    L = gen_table(rng, 2, lt, max_rows=9, max_chunks=5)
    if big:
        L = [[[rng.choice([None, 0, 1, 2, 3]), i % 17] for i in range(rng.choice([1023, 1024, 1025, 1100]))]]
    ks = [(("col", 0, i), rng.random() < 0.4) for i in rng.sample([0, 1], rng.choice([1, 2]))]
    limit = rng.choice([None, 0, 1, 2, 3, 7, 100])
    offset = rng.choice([0, 0, 1, 2, 5, 50])
    kj = ["list"] + [(["desc", sx_json(k, [0])] if d else sx_json(k, [0])) for k, d in ks]
    kt = clist(f"({sx_term(k, 0)}, {cbool(d)})" for k, d in ks)
    s = scan_json(0, 2)
    lim = "null" if limit is None else str(limit)
    lt_ = "None" if limit is None else f"(Some {limit}%nat)"
    kind = rng.choice(["order", "topn", "limit"])
    if kind == "order":
        plan, term = ["order", kj, s], f"POrder {kt}"
    elif kind == "topn":
        plan, term = ["topn", lim, str(offset), kj, s], f"PTopN {lt_} {offset}%nat {kt}"
    else:
        plan, term = ["limit", lim, str(offset), s], f"PLimit {lt_} {offset}%nat"
    return {"tables": [("a", lt, L)], "plan": plan, "term": term, "L": L, "lt": lt, "kind": kind, "ks": ks,
            "limit": limit, "offset": offset}


def sort_key(ks):
    def key(row):
        out = []
        for (k, desc) in ks:
            v = row[k]
            # NULL is the smallest value: first ascending, last descending
            rank = (0, 0) if v is None else (1, v)
            out.append((-rank[0], -rank[1]) if desc else rank)
        return tuple(out)
    return key


def plan_oracle(c, rows):
    """the property on the implementation's answer (plain values, no model)"""
    if rows is None:
        return "the plan failed"
    vals = [[None if v is None else v[1] for v in r] for r in rows]
    flat = [r for ch in c["L"] for r in ch]
    ks = [(k[2], d) for k, d in c["ks"]]
    if c["kind"] == "order":
        if sorted(map(json.dumps, vals)) != sorted(map(json.dumps, flat)):
            return "ORDER BY did not return a permutation of its input"
        keys = [sort_key(ks)(r) for r in vals]
        if keys != sorted(keys):
            return "ORDER BY result is not sorted on the keys"
    elif c["kind"] == "topn":
        full = sorted(flat, key=sort_key(ks))
        want = full[c["offset"]:] if c["limit"] is None else full[c["offset"]:c["offset"] + c["limit"]]
        if [sort_key(ks)(r) for r in vals] != [sort_key(ks)(r) for r in want]:
            return f"top-N keys differ from rows {c['offset']}+1.. of the full order"
    else:
        want = flat[c["offset"]:] if c["limit"] is None else flat[c["offset"]:c["offset"] + c["limit"]]
        if vals != want:
            return f"LIMIT {c['limit']} OFFSET {c['offset']} returned {len(vals)} rows, expected {len(want)}"
    return None


# ---- SQL level: both engines, several row-sets, deletes, compaction ---------------------------------
def gen_sql_case(rng, tier, force_merge=False):
    pk = force_merge or rng.random() < 0.5
    engine = "disk" if force_merge else rng.choice(["mem", "disk", "disk"])
    steps = [{"sql": f"create table t(a int {'primary key' if pk else ''}, b int, c int)"}]
    comp = None
    if pk and not force_merge and rng.random() < 0.35:
        # a composite key, declared in or against the column order (the storage sorts by the key columns in COLUMN order)
        comp = rng.choice([(0, 1), (1, 0), (0, 2), (2, 0), (1, 2), (2, 1)])
        steps = [{"sql": f"create table t(a int, b int, c int, primary key({'abc'[comp[0]]}, {'abc'[comp[1]]}))"}]
    rows, used = [], set()
    n_ins = rng.choice([7, 8, 9, 10, 12]) if force_merge else (rng.choice([1, 2, 3, 4, 7, 8, 9]) if pk else rng.randint(1, 4))
    for _ in range(n_ins):
        batch = []
        for _ in range(rng.randint(1, 6)):
            a = rng.randint(0, 60)
            if pk:
                while a in used:
                    a += 1
                used.add(a)
            elif rng.random() < 0.15:
                a = None
            row = [a, None if rng.random() < 0.2 else rng.randint(0, 3), rng.randint(0, 9)]
            if comp:
                row = [rng.randint(0, 6) if row[0] is None else row[0] % 7, rng.randint(0, 3), rng.randint(0, 9)]
            batch.append(row)
        rows += batch
        steps.append({"sql": "insert into t values " + ", ".join("(" + ", ".join("null" if v is None else str(v) for v in r) + ")" for r in batch)})
    deleted = False
    if rng.random() < 0.3 and not force_merge:
        cut = rng.randint(0, 9)
        steps.append({"sql": f"delete from t where c = {cut}"})
        rows = [r for r in rows if r[2] != cut]
        deleted = True
    compacted = False
    if engine == "disk" and (force_merge or rng.random() < 0.4):
        steps.append({"sleep_ms": 2500})
        compacted = True
    cols = rng.sample([0, 1, 2], rng.choice([1, 2]))
    ks = [(c, rng.random() < 0.4) for c in cols]
    if force_merge or rng.random() < 0.35:
        ks = [(0, False)]        # ORDER BY the (primary) key: the storage-order path
    if comp and rng.random() < 0.7:
        ks = rng.choice([[(comp[0], False)], [(comp[0], False), (comp[1], False)], [(min(comp), False)], [(min(comp), False), (max(comp), False)]])
    order = ", ".join("abc"[c] + (" desc" if d else "") for c, d in ks)
    limit = rng.choice([None, None, 0, 1, 2, len(rows), len(rows) + 1])
    offset = rng.choice([None, None, 0, 1, 2, len(rows), len(rows) + 1])
    tail = ("" if limit is None else f" limit {limit}") + ("" if offset is None else f" offset {offset}")
    q_full = f"select a, b, c from t order by {order}"
    q_lim = q_full + tail
    q_unordered = "select a, b, c from t" + tail
    steps += [{"sql": "select a, b, c from t"}, {"sql": q_full}, {"sql": q_lim}, {"sql": q_unordered}]
    return {"engine": engine, "steps": steps, "rows": rows, "ks": ks, "limit": limit, "offset": offset or 0, "pk": pk,
            "n_ins": n_ins, "compacted": compacted, "q": q_lim, "q_full": q_full, "deleted": deleted,
            "block": rng.choice([None, 64, 128])}


def sql_oracle(c, out):
    def vals(o):
        if "ok" not in o:
            return None
        return [[None if v is None else v[1] for v in r] for r in o["ok"][0]["rows"]]
    base, full, lim, unord = (vals(o) for o in out[-4:])
    if None in (base, full, lim, unord):
        bad = [o for o in out[-4:] if "ok" not in o][0]
        return (None, f"a query failed: {json.dumps(bad)[:150]}")
    ks = c["ks"]
    key = sort_key(ks)
    klass = None   # (ORDER BY <primary key> over several row-sets was a known finding; repaired by f86a898)
    if sorted(map(json.dumps, base)) != sorted(map(json.dumps, c["rows"])):
        return (None, f"the table holds {len(base)} rows, {len(c['rows'])} expected")
    if sorted(map(json.dumps, full)) != sorted(map(json.dumps, base)):
        return (klass, f"`{c['q_full']}` is not a permutation of the unordered result")
    keys = [key(r) for r in full]
    if keys != sorted(keys):
        return (klass, f"`{c['q_full']}` is not sorted on its keys ({c['engine']}, {c['n_ins']} inserts{', compacted' if c['compacted'] else ''})")
    n, m = c["limit"], c["offset"]
    want = keys[m:] if n is None else keys[m:m + n]
    if [key(r) for r in lim] != want:
        return (klass, f"`{c['q']}` does not return rows {m}+1.. of the ordered result")
    exp = max(0, len(base) - m) if n is None else min(n, max(0, len(base) - m))
    if len(unord) != exp:
        return (None, f"LIMIT/OFFSET without ORDER BY returned {len(unord)} rows, expected {exp}")
    pool = list(map(json.dumps, base))
    for r in map(json.dumps, unord):
        if r not in pool:
            return (None, "LIMIT/OFFSET without ORDER BY returned a row that is not in the full result")
        pool.remove(r)
    return None


def gen_join_case(rng, tier):
    """ORDER BY over a join of two tables that may both be keyed (on disk the optimiser then picks a merge join and may drop the sort)"""
    keyed = rng.random() < 0.7
    engine = rng.choice(["disk", "disk", "mem"])
    pkd = " primary key" if keyed else ""
    steps = [{"sql": f"create table p(k int{pkd}, v int)"}, {"sql": f"create table q(k int{pkd}, w int)"}]
    tabs = {}
    for nm in ("p", "q"):
        ks = rng.sample(range(1, 12), rng.randint(0, 7))
        if not keyed and ks and rng.random() < 0.5:
            ks += [rng.choice(ks), None]
        rows = [[k, rng.randint(0, 3)] for k in ks]
        tabs[nm] = rows
        for part in (rows[: len(rows) // 2], rows[len(rows) // 2:]):
            if part:
                steps.append({"sql": f"insert into {nm} values " + ", ".join(f"({'null' if k is None else k}, {v})" for k, v in part)})
    jt = rng.choice(["join", "left join", "left join", "right join", "full join"])
    col = rng.choice([0, 1, 1, 2, 3])
    desc = rng.random() < 0.3
    order = ["p.k", "q.k", "p.v", "q.w"][col] + (" desc" if desc else "")
    limit = rng.choice([None, None, 1, 2, 3])
    q_full = f"select p.k, q.k, p.v, q.w from p {jt} q on p.k = q.k order by {order}"
    q_lim = q_full + ("" if limit is None else f" limit {limit}")
    steps += [{"explain": q_full}, {"sql": q_full}, {"sql": q_lim}]
    # the join itself, independently
    P, Q = tabs["p"], tabs["q"]
    want = []
    for a in P:
        m = [b for b in Q if a[0] is not None and b[0] == a[0]]
        want += [[a[0], b[0], a[1], b[1]] for b in m]
        if not m and jt in ("left join", "full join"):
            want.append([a[0], None, a[1], None])
    if jt in ("right join", "full join"):
        for b in Q:
            if not any(a[0] is not None and a[0] == b[0] for a in P):
                want.append([None, b[0], None, b[1]])
    return {"engine": engine, "steps": steps, "want": want, "ks": [(col, desc)], "limit": limit, "q": q_lim, "q_full": q_full, "keyed": keyed, "jt": jt}


def join_oracle(c, out):
    def vals(o):
        return [[None if v is None else v[1] for v in r] for r in o["ok"][0]["rows"]] if "ok" in o else None
    plan, full, lim = out[-3], vals(out[-2]), vals(out[-1])
    if full is None or lim is None:
        bad = json.dumps([o for o in out[-2:] if "ok" not in o][0])
        klass = "KF_C11_nl_right_full_todo" if c["jt"] in ("right join", "full join") and "abort" in bad else None
        return (klass, f"`{c['q_full']}` failed: {bad[:150]}")
    key = sort_key(c["ks"])
    if sorted(map(json.dumps, full)) != sorted(map(json.dumps, c["want"])):
        return (None, f"`{c['q_full']}` ({c['engine']}) is not a permutation of the join's rows: {len(full)} rows, {len(c['want'])} expected")
    keys = [key(r) for r in full]
    if keys != sorted(keys):
        return (None, f"`{c['q_full']}` ({c['engine']}, {'keyed' if c['keyed'] else 'unkeyed'} tables) is not sorted on its key: {[r[c['ks'][0][0]] for r in full]}; plan {json.dumps(plan)[:160]}")
    if c["limit"] is not None and [key(r) for r in lim] != keys[:c["limit"]]:
        return (None, f"`{c['q']}` does not return the first {c['limit']} rows of the ordered result")
    return None


def run(R, only=None):
    R.prove(extra=["Corr/Exec.vo"])
    build_harness()
    n = 400 if R.tier == "quick" else 6000
    pcs = [gen_plan_case(R.rng, R.tier) for _ in range(n)]
    res = run_cases(pcs)
    terms, nontriv = [], set()
    for c, (rows, raw) in zip(pcs, res):
        why = plan_oracle(c, rows)
        if why:
            R.property_fails(None, "C12 " + why, {"kind": "plan", "tables": c["tables"], "plan": c["plan"], "observed": rows})
        terms.append(case_term(c["term"], c["L"], c["lt"], [], [], rows))
        if len(c["L"]) > 1:
            nontriv.add(json.dumps([c["tables"], c["plan"]]))
    failing = coq_eval("C12", execlib.HEADER, terms, per_file=40)
    if failing:
        i = sorted(failing)[0]
        R.correspondence_broken(f"C12 model of the {pcs[i]['kind']} executor = implementation",
                                json.dumps({"tables": pcs[i]["tables"], "plan": pcs[i]["plan"], "observed": res[i][0]})[:2500])
    sc = [gen_sql_case(R.rng, R.tier) for _ in range(250 if R.tier == "quick" else 4000)]
    # many row-sets of a primary-key table merged by one compaction pass, then ORDER BY the key
    sc += [gen_sql_case(R.rng, R.tier, force_merge=True) for _ in range(40 if R.tier == "quick" else 600)]
    so = run_harness("sql", [{"engine": c["engine"], "steps": c["steps"], **({"block": c["block"]} if c["block"] else {})} for c in sc], jobs=16)
    layouts = {}
    for c, o in zip(sc, so):
        if not isinstance(o, list) or len(o) < len(c["steps"]):
            R.property_fails(None, f"C12 script aborted: {json.dumps(o)[-200:]}", {"kind": "sql-script", "case": c["steps"]})
            continue
        r = sql_oracle(c, o)
        if r:
            R.property_fails(r[0], "C12 " + r[1], {"kind": "sql-script", "engine": c["engine"], "case": c["steps"], "observed": o[-4:]})
        lay = f"{c['engine']}/{'pk' if c['pk'] else 'nopk'}/{c['n_ins']}ins{'/del' if c['deleted'] else ''}{'/compacted' if c['compacted'] else ''}"
        layouts[lay] = layouts.get(lay, 0) + 1
        if c["n_ins"] > 1:
            nontriv.add(json.dumps(c["steps"]))
    # ORDER BY over joins (merge joins of keyed tables on disk)
    jc = [gen_join_case(R.rng, R.tier) for _ in range(120 if R.tier == "quick" else 2000)]
    jo = run_harness("sql", [{"engine": c["engine"], "steps": c["steps"]} for c in jc], jobs=16)
    for c, o in zip(jc, jo):
        if not isinstance(o, list) or len(o) < len(c["steps"]):
            R.property_fails(None, f"C12 script aborted: {json.dumps(o)[-200:]}", {"kind": "sql-script", "case": c["steps"]})
            continue
        r = join_oracle(c, o)
        if r:
            R.property_fails(r[0], "C12 " + r[1], {"kind": "sql-script", "engine": c["engine"], "case": c["steps"], "observed": o[-3:]})
        lay = f"join/{c['engine']}/{'keyed' if c['keyed'] else 'unkeyed'}/{c['jt']}"
        layouts[lay] = layouts.get(lay, 0) + 1
    R.coverage.update({
        "evaluations": len(pcs) + len(sc) + len(jc), "distinct_nontrivial": len(nontriv),
        "rule": "order / top-N / limit plans over multi-chunk inputs (incl. 1023..1100-row chunks) for every LIMIT/OFFSET combination; SQL "
                "queries on both engines over tables built by 1-4 inserts, optional delete, optional compaction, ordered by PK or non-PK "
                "keys asc/desc; non-trivial = more than one chunk / row-set",
        "samples": [{"tables": pcs[0]["tables"], "plan": pcs[0]["plan"]}, {"engine": sc[0]["engine"], "steps": sc[0]["steps"][-3:]}],
        "layout_distribution": layouts, "model_vs_impl_disagreements": len(failing),
    })
    R.assumptions += ["the unstable sort / binary heap are abstracted to a stable insertion sort: results are compared on the sort keys"]


def replay(R, path):
    run(R)
    return R.finish()
