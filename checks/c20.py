"""C20 — CSV export followed by import reproduces the table.

  (i)   proofs Props/C20.v (reader inverts writer for arbitrary byte-string fields and every
        delimiter / quote; text tables survive COPY TO + COPY FROM unless a cell is NULL or '');
  (ii)  correspondence Corr/C20.v: the bytes COPY TO writes = the model's writer, the table COPY FROM
        builds = the model's reader + cell rule, on generated text tables and option combinations;
  (iii) oracle: rows(copy_from(copy_to(t))) = rows(t) for generated typed tables (every supported
        column type, extreme values, NULLs, special characters, delimiter / quote / header / escape).
"""
import json
import os
import shutil

from .common import *  # noqa: F401,F403

HEADER = "From RL Require Import Corr.C20.\nOpen Scope Z_scope.\n"
BASE = os.path.join(CACHE, "csv")
CELLS = [None, "", "a", "abc", "a,b", 'say "hi"', "it's", "line\nbreak", "cr\rx", "x|y", "semi;colon", "tab\there", "NULL", "null", " lead", "trail ",
         '"', '""', ",", "\n", "é√", "a\"b,c\nd", "\\", "back\\slash\"q", "#hash", "#", "a#b", ";x", "--c", "//", "%"]


def sql_str(s):
    return "null" if s is None else "'" + s.replace("'", "''") + "'"


def opt_clause(d, q, header=None, escape=None):
    parts = []
    if d != ",":
        parts.append("delimiter " + ("e'\\t'" if d == "\t" else sql_str(d)))
    if q != '"':
        parts.append("quote " + sql_str(q))
    if header is not None:
        parts.append("header " + ("true" if header else "false"))
    if escape is not None:
        parts.append("escape " + sql_str(escape))
    return (" (" + ", ".join(parts) + ")") if parts else ""


def cell_t(c):
    return "None" if c is None else f"(Some {clist(map(str, c.encode()))})"


TYPED = [
    ("int", [0, 1, -1, 2147483647, -2147483648, None]),
    ("bigint", [0, 9223372036854775807, -9223372036854775808, 42, None]),
    ("smallint", [0, 32767, -32768, None]),
    ("double", [0.0, 1.5, -2.25, 1e300, 1e-300, 123456789.125, 0.1, None]),
    ("decimal(12,3)", ["0.000", "1.500", "-99999.999", "123456789.125", None]),
    ("boolean", [True, False, None]),
    ("date", ["2020-02-29", "1970-01-01", "9999-12-31", "0001-01-01", None]),
    ("timestamp", ["2020-02-29 23:59:59", "1970-01-01 00:00:00", None]),
    ("varchar", ["a", "a,b", 'q"q', "x\ny", "NULL", " sp ", None, "", 'b\\s"q', "x\\,y"]),
]


def typed_lit(ty, v):
    if v is None:
        return "null"
    if ty.startswith("decimal"):
        return v
    if ty == "date":
        return f"date '{v}'"
    if ty == "timestamp":
        return f"timestamp '{v}'"
    if ty == "boolean":
        return "true" if v else "false"
    if ty == "varchar":
        return sql_str(v)
    if ty == "double":
        return f"cast('{v!r}' as double)"      # (an exponent literal such as 1e300 panics the binder: C17's subject)
    return repr(v)


def run(R, only=None):
    R.prove()
    build_harness()
    shutil.rmtree(BASE, ignore_errors=True)
    os.makedirs(BASE, exist_ok=True)
    try:
        _run(R)
    finally:
        shutil.rmtree(BASE, ignore_errors=True)


def _run(R):
    rng = R.rng
    # ---- A. text tables: bytes and rows against the model ---------------------------------------------
    na = 150 if R.tier == "quick" else 2500
    cases = []
    for i in range(na):
        ncol = rng.randint(1, 4)
        nrow = rng.choice([0, 1, 2, 5, 12])
        simple = rng.random() < 0.3
        pool = [c for c in CELLS if c not in (None, "")] if simple else CELLS
        rows = [[rng.choice(pool) for _ in range(ncol)] for _ in range(nrow)]
        d, q = rng.choice([",", ",", "|", ";", "\t"]), rng.choice(['"', '"', "'"])
        f = os.path.join(BASE, f"a{i}.csv")
        cols = ", ".join(f"c{j} varchar" for j in range(ncol))
        steps = [{"sql": f"create table t({cols})"}, {"sql": f"create table u({cols})"}]
        if rows:
            steps.append({"sql": "insert into t values " + ", ".join("(" + ", ".join(sql_str(c) for c in r) + ")" for r in rows)})
        if rng.random() < 0.3:
            # the target file already exists and is longer (an earlier export of another table)
            steps += [{"sql": f"create table w({cols})"},
                      {"sql": "insert into w values " + ", ".join("(" + ", ".join(sql_str("older row " + str(j) * 9) for _ in range(ncol)) + ")" for j in range(nrow + 6))},
                      {"sql": f"copy w to '{f}'{opt_clause(d, q)}"}]
        steps += [{"sql": f"copy t to '{f}'{opt_clause(d, q)}"}, {"read": f}, {"sql": f"copy u from '{f}'{opt_clause(d, q)}"}, {"sql": "select * from u"}, {"sql": "select * from t"}]
        cases.append({"engine": "mem", "steps": steps, "rows": rows, "d": d, "q": q})
    outs = run_harness("sql", [{"engine": c["engine"], "steps": c["steps"]} for c in cases], jobs=16)
    terms, usable = [], []
    for c, o in zip(cases, outs):
        rep = {"kind": "sql-script", "case": {"engine": c["engine"], "steps": c["steps"]}}
        rows = c["rows"]
        has_null = any(x is None for r in rows for x in r)
        has_empty = any(x == "" for r in rows for x in r)
        klass = "KF_C20_null_written_as_text" if has_null else "KF_C20_empty_string_is_null" if has_empty else None
        if not isinstance(o, list) or len(o) < len(c["steps"]):
            R.property_fails(klass, f"C20 the script aborted: {json.dumps(o)[-200:]}", rep)
            continue
        cp_to, rd, cp_from, sel_u, sel_t = o[-5:]
        if "ok" not in cp_to or "read" not in rd:
            R.property_fails(None, f"C20 COPY TO failed: {json.dumps(cp_to)[:200]}", rep)
            continue
        stored = [[None if v is None else v[1] for v in r] for r in sel_t["ok"][0]["rows"]] if "ok" in sel_t else None
        if stored != rows:
            continue                      # the INSERT itself changed the cells (C16 / C19's subject): not a CSV matter
        if "ok" not in cp_from:
            R.property_fails(klass, f"C20 COPY FROM of the exported file failed: {json.dumps(cp_from)[:200]} (delimiter {c['d']!r}, quote {c['q']!r})", rep)
            continue
        back = [[None if v is None else v[1] for v in r] for r in sel_u["ok"][0]["rows"]]
        if sorted(map(repr, back)) != sorted(map(repr, rows)):
            diff = [r for r in rows if r not in back][:2]
            R.property_fails(klass, f"C20 round trip changes the table (delimiter {c['d']!r}, quote {c['q']!r}): {diff} came back as {[r for r in back if r not in rows][:2]}", rep)
        filebytes = rd["read"].encode("utf-8", "surrogateescape") if isinstance(rd["read"], str) else b""
        terms.append(f"mk_case {ord(c['d'])} {ord(c['q'])} {clist(clist(cell_t(x) for x in r) for r in rows)} {clist(map(str, filebytes))} "
                     f"{clist(clist(cell_t(x) for x in r) for r in back)}")
        usable.append(c)
    failing = coq_eval("C20", HEADER, terms, per_file=40)
    if failing:
        i = sorted(failing)[0]
        R.correspondence_broken("C20 " + {1: "bytes written by COPY TO = model writer", 2: "table built by COPY FROM = model reader"}[failing[i][0]],
                                json.dumps({"engine": "mem", "steps": usable[i]["steps"]})[:3000])
    # ---- B. typed tables, both engines, options ------------------------------------------------------------
    nb = 120 if R.tier == "quick" else 2000
    tc = []
    for i in range(nb):
        cols = rng.sample(TYPED, rng.randint(1, 5))
        nrow = rng.choice([1, 3, 8])
        allow_null = rng.random() < 0.3
        rows = [[rng.choice([v for v in vals if allow_null or (v is not None and v != "")]) for _, vals in cols] for _ in range(nrow)]
        d, q = rng.choice([",", "|", ";"]), rng.choice(['"', "'"])
        header = rng.choice([None, None, False, True])
        escape = rng.choice([None, None, None, "\\"])
        f = os.path.join(BASE, f"b{i}.csv")
        decl = ", ".join(f"c{j} {ty}" for j, (ty, _) in enumerate(cols))
        oc = opt_clause(d, q, header, escape)
        src = rng.choice(["t", "query"])
        steps = [{"sql": f"create table t({decl})"}, {"sql": f"create table u({decl})"},
                 # (one INSERT for all rows would do, but a multi-row VALUES with a TIMESTAMP column is rejected by the binder's
                 #  type union: the rows are given as a UNION-free sequence of single-row statements joined in one script step)
                 {"sql": "; ".join("insert into t values (" + ", ".join(typed_lit(ty, v) for (ty, _), v in zip(cols, r)) + ")" for r in rows)},
                 {"sql": (f"copy t to '{f}'{oc}" if src == "t" else f"copy (select * from t) to '{f}'{oc}")},
                 {"sql": f"copy u from '{f}'{oc}"}, {"sql": "select * from t"}, {"sql": "select * from u"}]
        tc.append({"engine": rng.choice(["mem", "disk"]), "steps": steps, "rows": rows, "cols": [ty for ty, _ in cols], "header": header, "escape": escape,
                   "null": any(v is None for r in rows for v in r), "empty": any(v == "" for r in rows for v in r),
                   "special": any(isinstance(v, str) and ("\\" in v or '"' in v or "'" in v) for r in rows for v in r)})
    # directed: the ESCAPE option with cells that hold the escape character
    for i, cell in enumerate(['b\\s"q', "x\\,y", "plain"]):
        f = os.path.join(BASE, f"e{i}.csv")
        oc = opt_clause(",", '"', None, "\\")
        tc.append({"engine": "mem", "steps": [{"sql": "create table t(c0 varchar, c1 int)"}, {"sql": "create table u(c0 varchar, c1 int)"},
                                              {"sql": f"insert into t values ({sql_str(cell)}, 1)"}, {"sql": f"copy t to '{f}'{oc}"},
                                              {"sql": f"copy u from '{f}'{oc}"}, {"sql": "select * from t"}, {"sql": "select * from u"}],
                   "rows": [[cell, 1]], "cols": ["varchar", "int"], "header": None, "escape": "\\", "null": False, "empty": False, "special": "\\" in cell})
    # directed: COPY (query) TO over a table stored in several batches, with predicates that empty a whole batch
    for i in range(24 if R.tier == "quick" else 200):
        f = os.path.join(BASE, f"q{i}.csv")
        nb_ = rng.randint(2, 4)
        batches = [[(g, rng.choice(["a", "b,c", "x y", "#k"]), rng.randint(0, 9)) for _ in range(rng.randint(1, 4))] for g in range(nb_)]
        pred = rng.choice(["g <> 1", "g > 0", f"g = {nb_ - 1}", "g <> 0 and g <> 1", "n >= 0", "g < 1 or g > 1"])
        steps = [{"sql": "create table t(g int, s varchar, n int)"}, {"sql": "create table u(g int, s varchar, n int)"}]
        for b in batches:
            steps.append({"sql": "insert into t values " + ", ".join(f"({g}, {sql_str(sv)}, {n})" for g, sv, n in b)})
        steps += [{"sql": "select 1"}, {"sql": f"copy (select * from t where {pred}) to '{f}'"}, {"sql": f"copy u from '{f}'"},
                  {"sql": f"select * from t where {pred}"}, {"sql": "select * from u"}]
        tc.append({"engine": rng.choice(["mem", "disk"]), "steps": steps, "rows": [], "cols": ["int", "varchar", "int", "query:" + pred], "header": None, "escape": None,
                   "null": False, "empty": False, "special": False})
    # directed: COPY t(column list) TO / COPY u(column list) FROM — a reordering or a subset of the table's columns
    TYPES = {"g": "int", "s": "varchar", "n": "int", "m": "int"}
    for i in range(12 if R.tier == "quick" else 100):
        f = os.path.join(BASE, f"l{i}.csv")
        lst = rng.sample(["g", "s", "n", "m"], rng.randint(1, 4))
        if lst == ["g", "s", "n", "m"][:len(lst)] and len(lst) == 4:
            lst.reverse()
        rows = [(k, rng.choice(["a", "b,c", "x y"]), rng.randint(10, 19), rng.randint(100, 109)) for k in range(rng.randint(1, 5))]
        if rng.random() < 0.5:
            # import through the same list into a table declared in another order
            decl_u = ", ".join(f"{c} {TYPES[c]}" for c in sorted(lst))
            imp = f"copy u({', '.join(lst)}) from '{f}'"
            sel_u = f"select {', '.join(lst)} from u"
        else:
            decl_u = ", ".join(f"{c} {TYPES[c]}" for c in lst)
            imp = f"copy u from '{f}'"
            sel_u = "select * from u"
        steps = [{"sql": "create table t(g int, s varchar, n int, m int)"}, {"sql": f"create table u({decl_u})"},
                 {"sql": "insert into t values " + ", ".join(f"({g}, {sql_str(sv)}, {n}, {m})" for g, sv, n, m in rows)},
                 {"sql": f"copy t({', '.join(lst)}) to '{f}'"}, {"sql": imp}, {"sql": f"select {', '.join(lst)} from t"}, {"sql": sel_u}]
        tc.append({"engine": rng.choice(["mem", "disk"]), "steps": steps, "rows": [], "cols": ["column-list"], "header": None, "escape": None,
                   "null": False, "empty": False, "special": False})
    outs = run_harness("sql", [{"engine": c["engine"], "steps": c["steps"]} for c in tc], jobs=16)
    kinds = {}
    for c, o in zip(tc, outs):
        rep = {"kind": "sql-script", "case": {"engine": c["engine"], "steps": c["steps"]}}
        klass = ("KF_C20_header_skips_row" if c["header"] else "KF_C20_null_written_as_text" if c["null"] else "KF_C20_empty_string_is_null" if c["empty"]
                 else "KF_C20_escape_asymmetric" if c["escape"] and c["special"] else None)
        for ty in c["cols"]:
            kinds[ty] = kinds.get(ty, 0) + 1
        if not isinstance(o, list) or len(o) < len(c["steps"]) or not all("ok" in x for x in o[:-4]):
            R.property_fails(None, f"C20 the typed script aborted: {json.dumps(o)[-200:]}", rep)
            continue
        if "ok" not in o[-4]:
            R.property_fails(None, f"C20 {c['steps'][-4]['sql'][:60]} failed: {json.dumps(o[-4])[:200]}", rep)
            continue
        if "ok" not in o[-3]:
            R.property_fails(klass, f"C20 COPY FROM of the exported file failed ({c['cols']}, header {c['header']}, escape {c['escape']!r}): {json.dumps(o[-3])[:200]}", rep)
            continue
        a = sorted(json.dumps(r) for r in o[-2]["ok"][0]["rows"])
        b = sorted(json.dumps(r) for r in o[-1]["ok"][0]["rows"])
        if a != b:
            R.property_fails(klass, f"C20 ({c['engine']}) round trip of a table with columns {c['cols']} (header {c['header']}, escape {c['escape']!r}) changes it: "
                                    f"{[x for x in a if x not in b][:2]} -> {[x for x in b if x not in a][:2]}", rep)
    R.coverage.update({
        "evaluations": len(terms) + len(tc), "distinct_nontrivial": len(terms),
        "rule": "A: tables of 1-4 VARCHAR columns, 0-12 rows of cells from 24 strings (delimiters, both quotes, LF, CR, tab, backslash, the text NULL, "
                "leading/trailing blanks, non-ASCII, empty, NULL), delimiter , | ; TAB, quote \" or ': file bytes and re-imported table against the "
                "model inside Coq; B: tables of 1-5 columns over INT, BIGINT, SMALLINT, DOUBLE, DECIMAL, BOOLEAN, DATE, TIMESTAMP, VARCHAR with "
                "extreme values, NULLs in 30% of the tables, COPY of a table or of a query, HEADER true/false, ESCAPE, both engines",
        "samples": [cases[0]["steps"][2:4]] if cases else [], "column_type_distribution": kinds, "model_vs_impl_disagreements": len(failing),
    })
    R.assumptions += ["the csv crate's writer (QuoteStyle::Necessary, doubled quotes) and reader are modelled by their documented behaviour; the byte-for-byte "
                      "comparison of every exported file and re-imported table with the model is what validates that on every run"]


def replay(R, path):
    run(R)
    return R.finish()
