"""C19 — values of every type compare, hash and print coherently."""
import json
import os
import math
import struct

from .common import *  # noqa: F401,F403

HEADER = "From RL Require Import Corr.C19.\nOpen Scope Z_scope.\n"
TYPES = ["i16", "i32", "i64", "bool", "str", "blob", "date", "ts", "tstz", "iv", "f64"]
BITS = {"i16": 16, "i32": 32, "i64": 64, "date": 32, "ts": 64, "tstz": 64}


def gen_val(rng, ty):
    if ty in BITS:
        b = BITS[ty]
        lo, hi = -(1 << (b - 1)), (1 << (b - 1)) - 1
        if ty == "date":
            lo, hi = -1000000, 3000000
        if ty in ("ts", "tstz"):
            # microseconds; whole seconds mostly (a sub-second part is a known printing loss)
            sec = rng.choice([0, 1, -1, 946684800, -946684800, rng.randint(-3 * 10 ** 10, 3 * 10 ** 10), 86399, 86400])
            return [ty, sec * 10 ** 6 + (rng.choice([1, 1000, 999999]) if rng.random() < 0.1 else 0)]
        return [ty, rng.choice([0, 1, -1, lo, hi, 7, rng.randint(lo, hi), rng.randint(-100, 100)])]
    if ty == "bool":
        return [ty, rng.random() < 0.5]
    if ty == "str":
        return [ty, rng.choice(["", "a", "ab", "b", "B", "é", "a b", "abc", "'q'", "NULL", "1"])]
    if ty == "blob":
        return [ty, rng.choice([[], [0], [255], [97], [97, 98], [92], [39], [1, 2, 3], [92, 120]])]
    if ty == "iv":
        return [ty, [rng.choice([0, 1, -1, 12, -18, 14]), rng.choice([0, 1, -1, 30, 3]), rng.choice([0, 1000, -1000, 86400000, 1500, 14706000])]]
    if ty == "f64":
        pats = [0, 1 << 63, 0x7FF0000000000000, 0xFFF0000000000000, 0x7FF8000000000000, 0xFFF8000000000001, 0x7FF0000000000001,
                0x3FF0000000000000, 0xBFF0000000000000, 1, (1 << 63) | 1, 0x4008000000000000, 0x7FEFFFFFFFFFFFFF]
        return [ty, str(rng.choice(pats) if rng.random() < 0.8 else rng.getrandbits(64))]
    raise ValueError(ty)


def xv_term(v):
    if v is None:
        return "XNull"
    t, p = v
    if t in ("i16", "i32", "i64"):
        return f"(X{t.upper()} {cz(p)})"
    if t == "bool":
        return f"(XBool {cbool(p)})"
    if t == "str":
        return "(XStr " + clist(str(b) for b in p.encode()) + ")"
    if t == "blob":
        return "(XBlob " + clist(str(b) for b in p) + ")"
    if t == "date":
        return f"(XDate {cz(p)})"
    if t == "ts":
        return f"(XTs {cz(p)})"
    if t == "tstz":
        return f"(XTsTz {cz(p)})"
    if t == "iv":
        return f"(XIv {cz(p[0])} {cz(p[1])} {cz(p[2])})"
    if t == "f64":
        return f"(XF64 {p})"
    raise ValueError(t)


# ---- independent oracle: the laws themselves, on the implementation's answers -------------------------
def laws(vals, out):
    n = len(vals)
    cmp, eq, hs = out["cmp"], out["eq"], out["hash"]
    for i in range(n):
        if cmp[i][i] != 0 or not eq[i][i]:
            return f"value {vals[i]} is not equal to itself"
        for j in range(n):
            if cmp[i][j] != -cmp[j][i]:
                return f"cmp({vals[i]},{vals[j]}) and its converse are not opposite"
            if (cmp[i][j] == 0) != eq[i][j]:
                return f"== and cmp disagree on {vals[i]}, {vals[j]}"
            if eq[i][j] and hs[i] != hs[j]:
                return f"{vals[i]} == {vals[j]} but they hash differently"
            for k in range(n):
                if cmp[i][j] <= 0 and cmp[j][k] <= 0 and cmp[i][k] > 0:
                    return f"order not transitive on {vals[i]}, {vals[j]}, {vals[k]}"
                if eq[i][j] and eq[j][k] and not eq[i][k]:
                    return f"equality not transitive on {vals[i]}, {vals[j]}, {vals[k]}"
    return None


def roundtrip(vals, out):
    """print then parse returns an EQUAL value (per the engine's own equality of the two values)"""
    bad = []
    for v, s, p in zip(vals, out["print"], out["parse"]):
        if v is None:
            continue
        if "ok" not in p:
            bad.append((v, f"printed as {s!r}, which does not parse back: {json.dumps(p)[:80]}"))
            continue
        got = p["ok"]
        same = got == v
        if not same and got is not None and v[0] == "f64" and got[0] == "f64":
            a, b = int(v[1]), int(got[1])
            nan = lambda x: (x >> 52) & 0x7FF == 0x7FF and x & ((1 << 52) - 1)
            same = (nan(a) and nan(b)) or (a % (1 << 63) == 0 and b % (1 << 63) == 0)
        if not same:
            bad.append((v, f"printed as {s!r}, parsed back as {got}"))
    return bad


def classify_rt(v):
    t, p = v
    if t == "blob" and (len(p) == 0 or 92 in p or 39 in p):
        return "KF_C19_blob_print_parse"
    if t == "iv" and (p[2] % 1000 != 0 or (p[0] == 0 and p[1] == 0 and p[2] == 0) or (p[2] != 0 and abs(p[2]) >= 86400000 * 24)
                      or any(x < 0 for x in p) and any(x > 0 for x in p)):
        return "KF_C19_interval_print_parse"
    if t == "iv" and p[0] < 0 and p[0] % 12 != 0:
        return "KF_C19_interval_print_parse"
    if t in ("ts", "tstz") and p % 10 ** 6 != 0:
        return "KF_C19_timestamp_subsecond_print"
    if t == "str" and p == "":
        return "KF_C20_empty_string_is_null"
    return None


# ---- SQL level: the same relations through operators, ORDER BY, GROUP BY, joins, MIN/MAX -------------
def sql_lit(v):
    if v is None:
        return "null"
    t, p = v
    if t in ("i16", "i32", "i64"):
        return str(p)
    if t == "str":
        return "'" + p.replace("'", "''") + "'"
    if t == "f64":
        x = struct.unpack("<d", struct.pack("<Q", int(p)))[0]
        if math.isnan(x):
            return "cast('NaN' as double)"
        if math.isinf(x):
            return f"cast('{'-' if x < 0 else ''}inf' as double)"
        return f"cast('{x!r}' as double)"
    if t == "date":
        return None
    raise ValueError(t)


def pykey(v):
    t, p = v
    if t == "f64":
        x = int(p)
        nan = (x >> 52) & 0x7FF == 0x7FF and x & ((1 << 52) - 1)
        if nan:
            return (2, 0)
        f = struct.unpack("<d", struct.pack("<Q", x))[0]
        return (1, f + 0.0)
    if t == "str":
        return (1, p.encode())
    return (1, p)


def gen_sql_case(rng):
    ty = rng.choice(["i32", "i64", "str", "f64", "f64"])
    sqlty = {"i32": "int", "i64": "bigint", "str": "varchar", "f64": "double"}[ty]
    vals = []
    for _ in range(rng.randint(2, 7)):
        v = gen_val(rng, ty)
        if ty == "f64":
            x = int(v[1])
            f = struct.unpack("<d", struct.pack("<Q", x))[0]
            if not (math.isnan(f) or math.isinf(f) or f == 0 or abs(f) < 1e15 and abs(f) > 1e-5):
                v = ["f64", str(0x3FF0000000000000)]
            if f == 0 and x != 0:
                v = ["f64", "0"]            # the literal -0.0 is not expressible (it is read as +0.0)
        if ty == "str" and v[1] in ("", "'q'"):
            v = ["str", "zz"]
        vals.append(v)
    steps = [{"sql": f"create table t(k int, v {sqlty})"}]
    steps.append({"sql": "insert into t values " + ", ".join(f"({i}, {sql_lit(v)})" for i, v in enumerate(vals))})
    steps += [{"sql": "select a.k, b.k from t a, t b where a.v < b.v"},
              {"sql": "select a.k, b.k from t a, t b where a.v = b.v"},
              {"sql": "select k from t order by v, k"},
              {"sql": "select count(*) from (select v from t group by v) g"},
              {"sql": "select a.k, b.k from t a join t b on a.v = b.v"},
              {"sql": "select count(*) from t where v = (select min(v) from t)"},
              {"sql": "select count(*) from t where v = (select max(v) from t)"}]
    return {"steps": steps, "vals": vals, "ty": ty}


def sql_oracle(c, out):
    vals = c["vals"]
    keys = [pykey(v) for v in vals]
    n = len(vals)
    def pairs(o):
        return sorted((r[0][1], r[1][1]) for r in o["ok"][0]["rows"])
    def scalar(o):
        return o["ok"][0]["rows"][0][0][1]
    res = out[2:]
    if any("ok" not in o for o in res):
        bad = [o for o in res if "ok" not in o][0]
        return f"a query failed: {json.dumps(bad)[:150]}"
    want_lt = sorted((i, j) for i in range(n) for j in range(n) if keys[i] < keys[j])
    want_eq = sorted((i, j) for i in range(n) for j in range(n) if keys[i] == keys[j])
    if pairs(res[0]) != want_lt:
        return f"`a.v < b.v` holds for {pairs(res[0])}, the order says {want_lt} (values {vals})"
    if pairs(res[1]) != want_eq:
        return f"`a.v = b.v` holds for {pairs(res[1])}, equality says {want_eq} (values {vals})"
    got_order = [r[0][1] for r in res[2]["ok"][0]["rows"]]
    if got_order != sorted(range(n), key=lambda i: (keys[i], i)):
        return f"ORDER BY v returns rows {got_order}, the order says {sorted(range(n), key=lambda i: (keys[i], i))} (values {vals})"
    if scalar(res[3]) != len(set(keys)):
        return f"GROUP BY v makes {scalar(res[3])} groups, equality makes {len(set(keys))} (values {vals})"
    if pairs(res[4]) != want_eq:
        return f"JOIN ON a.v = b.v matches {pairs(res[4])}, equality says {want_eq} (values {vals})"
    if scalar(res[5]) != sum(1 for k in keys if k == min(keys)) or scalar(res[6]) != sum(1 for k in keys if k == max(keys)):
        return f"MIN/MAX disagree with the order (values {vals})"
    return None


def run(R, only=None):
    R.prove()
    build_harness()
    n = 400 if R.tier == "quick" else 6000
    cases = []
    for _ in range(n):
        ty = R.rng.choice(TYPES)
        vals = [gen_val(R.rng, ty) for _ in range(R.rng.randint(2, 6))]
        if R.rng.random() < 0.3:
            vals.append(None)
        if R.rng.random() < 0.3:
            vals.append(R.rng.choice(vals))
        cases.append({"ty": ty, "vals": vals})
    outs = run_harness("c19", cases, jobs=16)
    terms, usable, nontriv, dist = [], [], set(), {}
    for c, o in zip(cases, outs):
        dist[c["ty"]] = dist.get(c["ty"], 0) + 1
        if "cmp" not in o:
            R.property_fails(None, f"C19 harness failure {json.dumps(o)[:150]}", {"kind": "values", "case": c})
            continue
        why = laws(c["vals"], o)
        if why:
            R.property_fails(None, "C19 " + why, {"kind": "values", "case": c, "observed": {k: o[k] for k in ("cmp", "eq")}})
        for v, msg in roundtrip(c["vals"], o):
            R.property_fails(classify_rt(v), f"C19 {v} {msg}", {"kind": "values", "case": {"ty": c["ty"], "vals": [v]}})
        hasheq = [[o["hash"][i] == o["hash"][j] for j in range(len(c["vals"]))] for i in range(len(c["vals"]))]
        prints = clist((f'(Some "{s}"%string)' if v is not None and v[0] in ("i16", "i32", "i64", "bool") else "None")
                       for v, s in zip(c["vals"], o["print"]))
        terms.append(f"mk_case {clist(xv_term(v) for v in c['vals'])} {clist(clist(cz(x) for x in r) for r in o['cmp'])} "
                     f"{clist(clist(cbool(x) for x in r) for r in o['eq'])} {clist(clist(cbool(x) for x in r) for r in hasheq)} {prints}")
        usable.append(c)
        if len({json.dumps(v) for v in c["vals"]}) >= 3:
            nontriv.add(json.dumps(c))
    failing = coq_eval("C19", HEADER, terms, per_file=50)
    names = {1: "order (derived Ord) = model", 2: "equality = model", 3: "hash equality = model's canonical form", 4: "printing of integers / booleans = model"}
    if failing:
        i = sorted(failing)[0]
        R.correspondence_broken("C19 " + "; ".join(names[s] for s in failing[i]), json.dumps(usable[i])[:2000])
    sc = [gen_sql_case(R.rng) for _ in range(200 if R.tier == "quick" else 3000)]
    so = run_harness("sql", [{"engine": R.rng.choice(["mem", "disk"]), "steps": c["steps"]} for c in sc], jobs=16)
    for c, o in zip(sc, so):
        if not isinstance(o, list) or len(o) < len(c["steps"]):
            R.property_fails(None, f"C19 script aborted: {json.dumps(o)[-200:]}", {"kind": "sql-script", "case": c["steps"]})
            continue
        if "ok" not in o[1]:
            continue
        why = sql_oracle(c, o)
        if why:
            R.property_fails(None, "C19 " + why, {"kind": "sql-script", "case": c["steps"]})
    # the CSV-import parse path: the same strings as INSERT literals and as quoted CSV fields must give equal values
    csv_n = 0
    csv_dir = os.path.join(CACHE, "csv19")
    os.makedirs(csv_dir, exist_ok=True)
    csv_cases = []
    for i in range(4 if R.tier == "quick" else 40):
        pool = [" lead", "trail ", "  both  ", " ", "in ner", "\ttab", "tab\t", "x", "a,b", 'q"q', "é ", " 1", "1 ", "0012"]
        vals = R.rng.sample(pool, R.rng.randint(3, 8))
        f = os.path.join(csv_dir, f"s{i}.csv")
        with open(f, "w", encoding="utf-8") as fh:
            for v in vals:
                fh.write('"' + v.replace('"', '""') + '"\n')
        lits = ", ".join("('" + v.replace("'", "''") + "')" for v in vals)
        csv_cases.append({"engine": R.rng.choice(["mem", "disk"]), "vals": vals, "steps": [
            {"sql": "create table s(v varchar)"}, {"sql": "create table s2(v varchar)"}, {"sql": f"insert into s values {lits}"},
            {"sql": f"copy s2 from '{f}'"}, {"sql": "select v from s"}, {"sql": "select v from s2"}]})
    co = run_harness("sql", [{"engine": c["engine"], "steps": c["steps"]} for c in csv_cases], jobs=8)
    for c, o in zip(csv_cases, co):
        rep = {"kind": "sql-script", "case": c["steps"], "file_lines": ['"' + v.replace('"', '""') + '"' for v in c["vals"]]}
        if not isinstance(o, list) or len(o) < 6 or any("ok" not in x for x in o):
            R.property_fails(None, f"C19 CSV import of quoted strings failed: {json.dumps(o)[-200:]}", rep)
            continue
        csv_n += 1
        a = sorted(json.dumps(r) for r in o[4]["ok"][0]["rows"])
        b = sorted(json.dumps(r) for r in o[5]["ok"][0]["rows"])
        if a != b:
            d = [(x, y) for x, y in zip(a, b) if x != y][:2]
            R.property_fails(None, f"C19 the same strings parsed as INSERT literals and as CSV fields differ: {d}", rep)
    R.coverage.update({
        "evaluations": len(cases) + len(sc) + csv_n, "distinct_nontrivial": len(nontriv),
        "rule": "lists of 2-8 values of one type (all 11 scalar types; boundary values, -0.0, NaNs of both signs and payloads, negative "
                "intervals, empty strings / blobs, duplicates, NULL) with every pair compared, equated and hashed, each value printed and "
                "parsed back; SQL tables of such values queried with <, =, ORDER BY, GROUP BY, JOIN, MIN/MAX; non-trivial = >= 3 distinct values",
        "samples": cases[:2], "type_distribution": dist, "sql_cases": len(sc), "model_vs_impl_disagreements": len(failing),
    })
    R.assumptions += ["SipHash itself is outside the model: the model states which values must hash alike (canonical form), compared with the "
                      "implementation's hash equality on every generated pair",
                      "DECIMAL and VECTOR values, and the calendar arithmetic of chrono behind DATE / TIMESTAMP printing, are not modelled "
                      "(dates and timestamps are round-tripped through the implementation only)"]


def replay(R, path):
    run(R)
    return R.finish()
