"""C03 — acknowledged changes survive a clean shutdown and reopen.

  (i)   proofs Props/C03.v (reopen rebuilds the same state after every history; replay; compacted manifest);
  (ii)  correspondence Corr/C03.v: the real manifest.json, catalog and table layouts after every
        statement / compactor pass / reopen against the model (state, logged transactions, and the
        model's boot of the REAL file);
  (iii) an independent oracle: schemas and bags of all tables after every reopen, and the reopened
        database keeps accepting statements.
"""
import json
import re

from .common import *  # noqa: F401,F403

HEADER = "From RL Require Import Corr.C03.\n"
NAMES = ["t0", "t1", "t2", "t3"]
SCHEMAS = [
    ("a int primary key, b int", lambda rng, k: (k, rng.choice([None, 0, 1, 2]))),
    ("a int, b int", lambda rng, k: (rng.randint(0, 9), rng.choice([None, 0, 1, 2]))),
    ("a int not null, s varchar", lambda rng, k: (rng.randint(0, 9), rng.choice([None, "", "x", "hello"]))),
    ("a int primary key, f double, q boolean", lambda rng, k: (k, rng.choice([None, 0.5, -2.0]), rng.choice([None, True, False]))),
    ("a int, d date, m decimal(10,2)", lambda rng, k: (rng.randint(0, 9), rng.choice([None, "D1", "D2"]), rng.choice([None, "M1", "M2"]))),
    # a non-ASCII identifier: the manifest then holds multi-byte characters (a torn append can end inside one)
    ('a int primary key, "zähl€r" int', lambda rng, k: (k, rng.choice([None, 0, 1, 2]))),
]
LITS = {"D1": "date '2021-03-04'", "D2": "date '1970-01-01'", "M1": "12.50", "M2": "-0.25"}


def lit(v):
    if v is None:
        return "null"
    if isinstance(v, bool):
        return "true" if v else "false"
    if isinstance(v, str):
        return LITS.get(v, "'" + v + "'")
    return repr(v) if isinstance(v, float) else str(v)


def gen_history(rng, tier):
    steps, script = [], []
    live = {}           # name -> (schema index, next key)
    views = 0
    opts = {"block": rng.choice([64, 256, None]), "rowset": rng.choice([None, 1000, 6000]), "crc": rng.choice([True, False])}

    def observe():
        steps.append({"sql": "select * from pg_catalog.pg_tables"})
        script.append(("catalog", None))
        for n in NAMES:
            steps.append({"layout": n})
            script.append(("layout", n))
        steps.append({"read": "manifest.json"})
        script.append(("manifest", None))

    def scans():
        for n in sorted(live):
            steps.append({"sql": f"select * from {n}"})
            script.append(("scan", n))

    n = rng.randint(5, 12) if tier == "quick" else rng.randint(8, 28)
    directed = rng.random() < 0.25      # drop-then-recreate, delete + drop, view between tables
    plan = [None] * n
    if directed:
        plan = rng.choice([
            ["create", "insert", "delete", "drop", "reopen", "create", "insert", "reopen", "reopen", "insert"],
            ["create", "insert", "insert", "delete", "sleep", "delete", "drop", "create", "reopen", "insert", "delete", "reopen"],
            ["create", "view", "create", "insert", "reopen", "insert"],
            ["create", "insert", "deleteall", "sleep", "reopen", "reopen", "insert", "reopen"],
            ["create", "create", "drop", "insert", "create", "insert", "reopen", "drop", "reopen", "create", "insert", "reopen"],
            # row-set ids are global, directories are <table>_<rowset>: table 1 / row-set 0 dropped while table 0 / row-set 1 lives (and 2_0 / 0_2)
            ["create", "create", ("insert", 1), ("insert", 0), ("drop", 1), "sleep", "reopen", "insert", "reopen"],
            ["create", "create", "create", ("insert", 2), ("insert", 1), ("insert", 0), ("drop", 2), "sleep", "reopen", ("drop", 1), "sleep", "reopen"],
        ])
    order = []
    for forced in plan:
        r = rng.random()
        target = None
        if isinstance(forced, tuple):
            forced, target = forced[0], (order[forced[1]] if forced[1] < len(order) and order[forced[1]] in live else None)
        kind = forced or ("create" if r < 0.18 else "drop" if r < 0.26 else "insert" if r < 0.52 else "delete" if r < 0.66 else
                          "view" if r < 0.70 else "func" if r < 0.73 else "sleep" if r < 0.82 else "reopen")
        if kind == "create":
            free = [x for x in NAMES if x not in live]
            if not free:
                continue
            name = rng.choice(free)
            si = rng.randrange(len(SCHEMAS))
            live[name] = [si, 0]
            order.append(name)
            steps.append({"sql": f"create table {name}({SCHEMAS[si][0]})"})
            script.append(("create", name, si))
        elif kind == "drop":
            if not live:
                continue
            name = target or rng.choice(sorted(live))
            del live[name]
            steps.append({"sql": f"drop table {name}"})
            script.append(("drop", name))
        elif kind == "insert":
            if not live:
                continue
            name = target or rng.choice(sorted(live))
            si = live[name][0]
            rows = []
            for _ in range(rng.choice([1, 2, 6, 20, 45])):
                live[name][1] += rng.randint(1, 3)
                rows.append(SCHEMAS[si][1](rng, live[name][1]))
            steps.append({"sql": f"insert into {name} values " + ", ".join("(" + ", ".join(lit(v) for v in r) + ")" for r in rows)})
            script.append(("insert", name, rows))
        elif kind in ("delete", "deleteall"):
            if not live:
                continue
            name = rng.choice(sorted(live))
            k = rng.randint(0, 30)
            pk = rng.choice(["lt", "ge", "all", "mod"]) if kind == "delete" else "all"
            pred = {"lt": f"a < {k}", "ge": f"a >= {k}", "all": None, "mod": f"a % 2 = {k % 2}"}[pk]
            steps.append({"sql": f"delete from {name}" + (f" where {pred}" if pred else "")})
            script.append(("delete", name, [pk, k]))
        elif kind == "view":
            if not live:
                continue
            views += 1
            steps.append({"sql": f"create view v{views}(x) as select a from {rng.choice(sorted(live))}"})
            script.append(("view", f"v{views}"))
        elif kind == "func":
            views += 1
            steps.append({"sql": f"create function f{views}(int) returns int language sql as 'select $1 + {views}'"})
            script.append(("func", None))
        elif kind == "sleep":
            steps.append({"sleep_ms": 900})
            script.append(("sleep", None))
        else:
            steps.append({"reopen": True})
            script.append(("reopen", None))
        observe()
        if kind == "reopen" or rng.random() < 0.3:
            scans()
    steps.append({"reopen": True})
    script.append(("reopen", None))
    observe()
    scans()
    if live:
        name = sorted(live)[0]
        si = live[name][0]
        live[name][1] += 1
        row = SCHEMAS[si][1](rng, live[name][1])
        steps.append({"sql": f"insert into {name} values (" + ", ".join(lit(v) for v in row) + ")"})
        script.append(("insert", name, [row]))
        observe()
        scans()
    return {"opts": opts, "steps": steps, "script": script}


def pred_fn(pk, k):
    return {"lt": lambda r: r[0] < k, "ge": lambda r: r[0] >= k, "all": lambda r: True,
            "mod": lambda r: (abs(r[0]) % 2) * (1 if r[0] >= 0 else -1) == k % 2}[pk]


def parse_log(text):
    """manifest.json -> Coq rec list (as strings)"""
    dec = json.JSONDecoder()
    i, out = 0, []
    while i < len(text):
        try:
            v, j = dec.raw_decode(text, i)
        except json.JSONDecodeError:
            out.append("RTorn")
            break
        i = j
        if v == "Begin":
            out.append("RBegin")
        elif v == "End":
            out.append("REnd")
        else:
            if not isinstance(v, dict) or len(v) != 1:
                out.append("RTorn")         # not a manifest record at all
                break
            (k, e), = v.items()
            if k == "CreateTable":
                out.append(f"ROp (MCreate {NAMES.index(e['table_name']) + 1 if e['table_name'] in NAMES else 99})")
            elif k == "DropTable":
                out.append(f"ROp (MDrop {e['table_id']['table_id']})")
            elif k == "AddRowSet":
                out.append(f"ROp (MAddRS {e['table_id']['table_id']} {e['rowset_id']})")
            elif k == "DeleteRowSet":
                out.append(f"ROp (MDelRS {e['table_id']['table_id']} {e['rowset_id']})")
            elif k == "AddDV":
                out.append(f"ROp (MAddDV {e['table_id']['table_id']} {e['dv_id']} {e['rowset_id']})")
            elif k == "DeleteDV":
                out.append(f"ROp (MDelDV {e['table_id']['table_id']} {e['dv_id']} {e['rowset_id']})")
    return out


def norm_row(r):
    import struct
    def one(v):
        if v is None:
            return None
        if v[0] == "f64":
            return struct.unpack("<d", struct.pack("<Q", int(v[1])))[0]
        return v[1]
    return tuple(one(v) for v in r)


def expected_row(r):
    conv = {"D1": 18690, "D2": 0, "M1": "12.50", "M2": "-0.25"}
    return tuple(conv.get(v, v) if isinstance(v, str) else v for v in r)


def analyse(R, h, out):
    replay = {"kind": "sql-script", "case": {"engine": "disk", "atomic": True, **{k: v for k, v in h["opts"].items() if v is not None}, "steps": h["steps"]},
              "history": h}
    n = len(h["steps"])
    bags, ids = {}, {}                 # name -> list of rows ; name -> table id (observed)
    view_then_table = False
    seen_view = False
    views = []
    csteps = []
    pending, evs = None, []
    prev_layout = {}                   # name -> {rsid: [dv ids]}
    layout = {}
    skipc = False
    klass_of = lambda: "KF_C03_view_shifts_table_ids" if view_then_table else None
    if not isinstance(out, list):
        # the whole run aborted (a panic outside a statement, e.g. inside a reopen): classify by what the history contains
        sv, vt = False, False
        for sc in h["script"]:
            if sc[0] == "view":
                sv = True
            elif sc[0] == "create" and sv:
                vt = True
            elif sc[0] == "reopen" and not vt:
                sv = False
        R.property_fails("KF_C03_view_shifts_table_ids" if vt else None, f"C03 the history aborted: {json.dumps(out)[:220]}", replay)
        return None
    for i, (sc, st) in enumerate(zip(h["script"], h["steps"])):
        if i >= len(out) if isinstance(out, list) else True:
            last = out[-1] if isinstance(out, list) and out else out
            R.property_fails(klass_of(), f"C03 the history stopped at step {i} ({sc[0]}): {json.dumps(last)[:220]}", replay)
            return None if skipc else csteps
        o = out[i]
        kind = sc[0]
        if kind in ("create", "drop", "insert", "delete", "view", "func"):
            if "ok" not in o:
                R.property_fails(klass_of(), f"C03 step {i} `{st['sql'][:70]}` failed: {json.dumps(o)[:200]}", replay)
                return None if skipc else csteps
            if kind == "create":
                bags[sc[1]] = []
                if seen_view:
                    view_then_table = True
            elif kind == "drop":
                bags.pop(sc[1], None)
            elif kind == "insert":
                bags[sc[1]] += [expected_row(r) for r in sc[2]]
            elif kind == "delete":
                f = pred_fn(*sc[2])
                bags[sc[1]] = [r for r in bags[sc[1]] if not f(r)]
            elif kind == "view":
                seen_view = True
                views.append(sc[1])
            pending = sc
        elif kind in ("sleep", "reopen"):
            if kind == "reopen" and not o.get("reopened"):
                R.property_fails(klass_of(), f"C03 step {i}: reopening the database failed: {json.dumps(o)[:220]}", replay)
                return None if skipc else csteps
            if kind == "reopen":
                seen_view = False        # the restarted catalog numbers from the replayed tables again
                views = []
            pending = sc
        elif kind == "catalog":
            if "ok" not in o:
                R.property_fails(klass_of(), f"C03 step {i}: pg_tables failed: {json.dumps(o)[:160]}", replay)
                return None if skipc else csteps
            cat = {r[3][1]: r[2][1] for r in o["ok"][0]["rows"] if r[1][1] == "postgres"}
            tabs = {k: v for k, v in cat.items() if k in NAMES}
            if set(tabs) != set(bags):
                R.property_fails(klass_of(), f"C03 after step {i - 1} ({pending[0]}) the catalog lists tables {sorted(tabs)}, expected {sorted(bags)}", replay)
                return None if skipc else csteps
            old_ids = ids
            ids = tabs
            layout = {}
        elif kind == "layout":
            if sc[1] in ids and o.get("layout") is not None:
                layout[sc[1]] = {r["id"]: [d[0] for d in r["dvs"]] for r in o["layout"]}
        elif kind == "manifest":
            # build the model events for this observation from what happened and the layout differences
            evs = []
            p = pending
            if p[0] == "create":
                evs.append(f"XStmt (SCreate {NAMES.index(p[1]) + 1})")
            elif p[0] == "view":
                evs.append("XStmt SCreateView")
            elif p[0] == "drop":
                evs.append(f"XStmt (SDrop {old_ids[p[1]]})")
            elif p[0] == "reopen":
                evs.append("XReopen")
            for name in sorted(set(layout) | set(prev_layout)):
                if name not in layout or name not in prev_layout or (p[0] in ("create",) and p[1] == name):
                    continue
                if p[0] == "reopen" and ids.get(name) != old_ids.get(name):
                    continue
                tid = ids[name]
                old, new = prev_layout[name], layout[name]
                added = sorted(r for r in new if r not in old)
                gone = sorted(r for r in old if r not in new)
                newdv = sorted((d, r) for r in new if r in old for d in new[r] if d not in old[r])
                if p[0] == "insert" and p[1] == name and not gone:
                    evs.append(f"XStmt (SInsert {tid} {clist(map(str, added))})")
                elif p[0] == "delete" and p[1] == name and not gone and not added:
                    evs.append(f"XStmt (SDelete {tid} {clist(f'({d}, {r})' for d, r in newdv)})")
                elif gone or added:
                    if len(added) > 1 or p[0] in ("insert", "delete"):
                        skipc = True
                        R.coverage["unexplained_steps"] = R.coverage.get("unexplained_steps", 0) + 1
                    else:
                        evs.append(f"XStmt (SCompact {tid} {clist(map(str, gone))} {copt(added[0] if added else None, str)})")
                        R.coverage["compactions"] = R.coverage.get("compactions", 0) + 1
            if "read" not in o:
                R.property_fails(klass_of(), f"C03 step {i}: manifest.json unreadable: {json.dumps(o)[:160]}", replay)
                return None if skipc else csteps
            recs = parse_log(o["read"])
            if p[0] == "reopen":
                # a compactor pass can run while the database shuts down and another right after it is opened; the
                # intermediate row-set is only visible in the file: first transaction = the compacted manifest written at
                # boot (what was live then), later transactions = what the pass after the boot committed
                frames, cur = [], None
                for r in recs:
                    if r == "RBegin":
                        cur = []
                    elif r == "REnd":
                        if cur is not None:
                            frames.append(cur)
                        cur = None
                    elif cur is not None:
                        cur.append(r)
                evs = []
                boot = {}
                for r in (frames[0] if frames else []):
                    m = re.match(r"ROp \(MAddRS (\d+) (\d+)\)", r)
                    if m:
                        boot.setdefault(int(m.group(1)), set()).add(int(m.group(2)))
                for name in sorted(prev_layout):
                    if name not in old_ids:
                        continue
                    tid = old_ids[name]
                    pre_live = set(prev_layout[name])
                    bl = boot.get(tid, set())
                    gone1, new1 = sorted(pre_live - bl), sorted(bl - pre_live)
                    if gone1 or new1:
                        if len(new1) > 1:
                            skipc = True
                        else:
                            evs.append(f"XStmt (SCompact {tid} {clist(map(str, gone1))} {copt(new1[0] if new1 else None, str)})")
                evs.append("XReopen")
                for fr in frames[1:]:
                    adds = [re.match(r"ROp \(MAddRS (\d+) (\d+)\)", r) for r in fr]
                    dels = [re.match(r"ROp \(MDelRS (\d+) (\d+)\)", r) for r in fr]
                    adds = [(int(m.group(1)), int(m.group(2))) for m in adds if m]
                    dels = [(int(m.group(1)), int(m.group(2))) for m in dels if m]
                    if dels:
                        tid = dels[0][0]
                        evs.append(f"XStmt (SCompact {tid} {clist(str(r) for _, r in dels)} {copt(adds[0][1] if adds else None, str)})")
                        R.coverage["compactions"] = R.coverage.get("compactions", 0) + 1
            # several tables compacted in one pass: the order of their commits is the order of their transactions in the file
            comp = [e for e in evs if e.startswith("XStmt (SCompact")]
            if len(comp) > 1 and p[0] != "reopen":
                def pos(e):
                    m = re.match(r"XStmt \(SCompact (\d+) \[(\d+)", e)
                    if not m:
                        return 10 ** 9
                    needle = f"ROp (MDelRS {m.group(1)} {m.group(2)})"
                    idx = [k for k, r in enumerate(recs) if r == needle]
                    return idx[-1] if idx else 10 ** 9
                rest = [e for e in evs if not e.startswith("XStmt (SCompact")]
                evs = rest + sorted(comp, key=pos)
            tabs_t = clist(f"({t}, {NAMES.index(nm) + 1})" for nm, t in sorted(ids.items(), key=lambda x: x[1]))
            rs_t = clist(f"({ids[nm]}, {r})" for nm in sorted(layout) for r in sorted(layout[nm]))
            dv_t = clist(f"({ids[nm]}, {d}, {r})" for nm in sorted(layout) for r in sorted(layout[nm]) for d in layout[nm][r])
            if not skipc and not view_then_table:
                alt = evs[1:] + evs[:1] if len(evs) > 1 and evs[0] == "XReopen" else []
                csteps.append(f"mk_step {clist(evs)} {clist(alt)} (mk_obs {tabs_t} {rs_t} {dv_t} {clist(recs)})")
            prev_layout = layout
        elif kind == "scan":
            name = sc[1]
            if "ok" not in o:
                R.property_fails(klass_of(), f"C03 step {i}: `select * from {name}` failed: {json.dumps(o)[:200]}", replay)
                return None if skipc else csteps
            got = sorted((norm_row(r) for r in o["ok"][0]["rows"]), key=repr)
            want = sorted(bags[name], key=repr)
            if got != want:
                R.property_fails(klass_of(), f"C03 step {i}: table {name} holds {len(got)} rows, {len(want)} were acknowledged "
                                             f"(first difference: {next(((g, w) for g, w in zip(got + [None], want + [None]) if g != w), None)})", replay)
                return None if skipc else csteps
    return csteps


def run(R, only=None):
    R.prove()
    build_harness()
    n = 100 if R.tier == "quick" else 1500
    hs = only or [gen_history(R.rng, R.tier) for _ in range(n)]
    for h in hs:
        h["script"] = [tuple(x) for x in h["script"]]
    outs = run_harness("sql", [{"engine": "disk", "atomic": True, **{k: v for k, v in h["opts"].items() if v is not None}, "steps": h["steps"]} for h in hs], jobs=16)
    terms, usable, kinds = [], [], {}
    for h, o in zip(hs, outs):
        for s in h["script"]:
            if s[0] not in ("catalog", "layout", "manifest", "scan"):
                kinds[s[0]] = kinds.get(s[0], 0) + 1
        cs = analyse(R, h, o)
        if cs:
            terms.append(f"mk_case {clist(cs)}")
            usable.append((h, o))
    failing = coq_eval("C03", HEADER, terms, per_file=8)
    names = {1: "the model accepts the statement / boots where the engine did", 2: "catalog (table ids and names) = model", 3: "live row-sets = model",
             4: "live delete vectors = model", 5: "manifest.json transactions = model log", 6: "model boot of the real manifest.json = observed state"}
    if failing:
        i = sorted(failing)[0]
        c = failing[i][0]
        R.correspondence_broken(f"C03 observation {c // 10}: {names.get(c % 10, c)}", json.dumps({"history": usable[i][0], "observed": usable[i][1]}))
    R.coverage.update({
        "evaluations": len(terms), "distinct_nontrivial": sum(1 for h in hs if sum(1 for s in h["script"] if s[0] == "reopen") >= 2),
        "rule": "histories of 5-28 statements over CREATE / DROP TABLE (4 names, 5 schemas incl. VARCHAR, DOUBLE, BOOLEAN, DATE, DECIMAL, keyed or not), "
                "INSERT 1-45 rows, DELETE (4 predicate kinds), CREATE VIEW, CREATE FUNCTION, compactor passes and reopen cycles (always one at the end, "
                "followed by an INSERT), 25% directed (drop-then-recreate, delete-then-drop, view between tables, drain + double reopen); block "
                "64/256/default, row-set size 1000/6000/default, checksum on/off; after every step: catalog, layout of every table, manifest.json; "
                "SELECT * of every table after every reopen; non-trivial = at least two reopen cycles",
        "samples": [[s for s in hs[0]["steps"] if "sql" in s and not s["sql"].startswith("select")][:6]], "statement_kind_distribution": kinds,
        "model_vs_impl_disagreements": len(failing),
    })
    R.assumptions += ["table definitions are compared through the catalog (names, ids) and through the rows read back (arity, values); column "
                      "types are part of the row values' tags", "views, indexes and functions are not persisted by the engine at all (known finding); "
                      "their absence after a reopen is reported under that finding only"]


def replay(R, path):
    d = json.load(open(path))
    h = d.get("history") or json.loads(d["detail"])["history"]
    run(R, only=[h])
    return R.finish()
