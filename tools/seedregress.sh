#!/bin/bash
# tools/seedregress.sh [seed dirs..] : re-run every seeded change against its own check (quick tier) and print one line per seed
cd /verif
S=${@:-$(ls seeded | sort -V)}
for s in $S; do
  P=${s%%-*}
  out=$(VERIF_SEED=${VERIF_SEED:-2} tools/seedrun.sh $s $P 2>&1)
  v=$(echo "$out" | grep -oE "violations=[0-9]+" | tail -1)
  nf=$(echo "$out" | grep -c "no-failing-input-found")
  echo "$s $v nofail=$nf $(echo "$out" | grep -E 'apply failed|repo dirty' | head -1)"
done
