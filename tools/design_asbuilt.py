#!/usr/bin/env python3
"""Regenerates section 10 ("As built") of DESIGN.md from the seeded metas, the known findings, Props/*.v and the hook commits."""
import json, glob, os, re, subprocess
THM = re.compile(r'^Theorem (\w+)', re.M)
rows = []
for d in sorted(glob.glob('/verif/seeded/C*-*'), key=lambda x: (x.split('/')[-1].split('-')[0], x)):
    j = json.load(open(os.path.join(d, 'meta.json')))
    seed = os.path.basename(d)
    br = (j.get('breaks') or '').split(':')[0][:110].replace('|', '/')
    res = j['result'].replace('|', '/')
    rows.append("| %s | %s | %s |" % (seed, br, res))
seed_table = "\n".join(rows)
kf = json.load(open('/verif/KNOWN_FINDINGS.json'))['findings']
open_kf = "\n".join("| %s | `%s` | %s | %s |" % (e['property'], e.get('class'), e['what'][:260].replace('|', '/'), ', '.join(e.get('also_affects', []))) for e in kf if e['status'] == 'open')
DESIGN_PHASE = set("d6ce443 3b0e917 7ede7e8 68aec4a ff34a71 4459c3f 48f5c5e dc73715 4e5cd00 1efbf50 40427ea 6095294 f961233 4a772e1 e8cafe9 f6ff441 f760cd6 "
                   "0444f54 3bc8ecf 8e8e6b6 dffd2f8 3d3411c ac24ab7".split())
order = subprocess.run("cd /repo && git log --format=%h --reverse", shell=True, capture_output=True, text=True).stdout.split()
fixed = [e for e in kf if e['status'] == 'fixed' and e.get('commit') and e['commit'] not in DESIGN_PHASE]
fixed.sort(key=lambda e: order.index(e['commit']) if e['commit'] in order else 10**6)
fixed_tab = "\n".join("| `%s` | %s (%s) | %s |" % (e['commit'], e['property'], ', '.join(e.get('also_affects', [])), e['line'].split(e['commit'])[-1].strip()[:330].replace('|', '/'))
                      for e in fixed)
theorems = []
for p in sorted(glob.glob('/verif/coq/Props/C*.v')):
    names = THM.findall(open(p).read())
    theorems.append("| %s | %s |" % (os.path.basename(p)[:-2], ', '.join('`' + t + '`' for t in names)))
thm_tab = "\n".join(theorems)
hooks = subprocess.run("cd /repo && git log --oneline | grep 'verif hooks'", shell=True, capture_output=True, text=True).stdout.strip().split("\n")
hook_tab = "\n".join("  * `%s` %s" % (h.split()[0], ' '.join(h.split()[1:])) for h in reversed(hooks))
body = open('/verif/tools/design_asbuilt.md').read()
sec = body.replace("@@THM@@", thm_tab).replace("@@HOOKS@@", hook_tab).replace("@@SEEDS@@", seed_table).replace("@@FIXED@@", fixed_tab).replace("@@OPENKF@@", open_kf).replace("@@NSEEDS@@", str(len(rows)))
s = open('/verif/DESIGN.md').read()
MARK = "## 10. As built"
SEP = "-" * 98
if MARK in s:
    i = s.index(MARK)
    i = s.rfind(SEP, 0, i)
    j = s.index("## Appendix A")
    j = s.rfind(SEP, 0, j)
    s = s[:i] + s[j:]
j = s.index("## Appendix A")
j = s.rfind(SEP, 0, j)
s = s[:j].rstrip("\n") + "\n\n" + SEP + "\n\n" + sec.strip("\n") + "\n\n" + s[j:]
open('/verif/DESIGN.md', 'w').write(s)
print("section 10:", len(sec), "chars")
