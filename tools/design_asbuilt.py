#!/usr/bin/env python3
"""Regenerates section 10 ("As built") of DESIGN.md from the seeded metas, the known findings, Props/*.v and the hook commits."""
import json, glob, os, re, subprocess
THM = re.compile(r'^Theorem (\w+)', re.M)
rows = []
for d in sorted(glob.glob('/verif/seeded/C*-*'), key=lambda x: (x.split('/')[-1].split('-')[0], x)):
    j = json.load(open(os.path.join(d, 'meta.json')))
    seed = os.path.basename(d)
    br = (j.get('breaks') or '').split(':')[0][:110].replace('|', '/')
    res = j['result'].replace('|', '/')
    rows.append("| %s | %s | %s |" % (seed, br, res))
seed_table = "\n".join(rows)
kf = json.load(open('/verif/KNOWN_FINDINGS.json'))['findings']
open_kf = "\n".join("| %s | `%s` | %s | %s |" % (e['property'], e.get('class'), e['what'][:260].replace('|', '/'), ', '.join(e.get('also_affects', []))) for e in kf if e['status'] == 'open')
NEW = ('a7654fb', '3999e69', '7c4610a', '55db4ac', 'f86a898', '7579388', 'be48b6c', 'a7fdaaa', 'eeb0aa0', 'cccbd07')
fixed_tab = "\n".join("| `%s` | %s (%s) | %s |" % (e['commit'], e['property'], ', '.join(e.get('also_affects', [])), e['line'].split(e['commit'])[-1].strip()[:330].replace('|', '/'))
                      for e in kf if e['status'] == 'fixed' and e.get('commit') in NEW)
theorems = []
for p in sorted(glob.glob('/verif/coq/Props/C*.v')):
    names = THM.findall(open(p).read())
    theorems.append("| %s | %s |" % (os.path.basename(p)[:-2], ', '.join('`' + t + '`' for t in names)))
thm_tab = "\n".join(theorems)
hooks = subprocess.run("cd /repo && git log --oneline | grep 'verif hooks'", shell=True, capture_output=True, text=True).stdout.strip().split("\n")
hook_tab = "\n".join("  * `%s` %s" % (h.split()[0], ' '.join(h.split()[1:])) for h in reversed(hooks))
body = open('/verif/tools/design_asbuilt.md').read()
sec = body.replace("@@THM@@", thm_tab).replace("@@HOOKS@@", hook_tab).replace("@@SEEDS@@", seed_table).replace("@@FIXED@@", fixed_tab).replace("@@OPENKF@@", open_kf)
s = open('/verif/DESIGN.md').read()
MARK = "## 10. As built"
SEP = "-" * 98
if MARK in s:
    i = s.index(MARK)
    i = s.rfind(SEP, 0, i)
    j = s.index("## Appendix A")
    j = s.rfind(SEP, 0, j)
    s = s[:i] + s[j:]
j = s.index("## Appendix A")
j = s.rfind(SEP, 0, j)
s = s[:j].rstrip("\n") + "\n\n" + SEP + "\n\n" + sec.strip("\n") + "\n\n" + s[j:]
open('/verif/DESIGN.md', 'w').write(s)
print("section 10:", len(sec), "chars")
