#!/bin/sh
# Re-check every compiled Props file (and everything it depends on) with Coq's independent checker and print the axioms.
cd "$(dirname "$0")/../coq" || exit 1
exec timeout 3000 coqchk -silent -o -Q . RL $(ls Props/*.v | sed 's/Props\//RL.Props./; s/\.v$//')
