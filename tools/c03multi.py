import json,sys,subprocess
sys.path.insert(0,'/verif')
from checks.common import *
from checks import c03
d=json.load(open(sys.argv[1])); k=int(sys.argv[2])
h=json.loads(d["detail"])["history"]
h["script"]=[tuple(x) for x in h["script"]]
for attempt in range(1):
    o=json.loads(d["detail"])["observed"]
    R=Runner('C03','quick',1)
    cs=c03.analyse(R,h,o)
    f=coq_eval("C03dbg", c03.HEADER, [f"mk_case {clist(cs)}"], per_file=5)
    print(attempt, f)
    if f:
        open('/tmp/dbg3.v','w').write("From RL Require Import Corr.C03.\nDefinition c := mk_case "+clist(cs)+".\n"
         "Definition pre := match reopen r_init with Some r0 => r0 | None => r_init end.\n"
         "Fixpoint go (r : rstate) (ss : list step) (n : nat) : option (rstate * step) := match ss, n with s :: _, 0 => match run_xevs r (s_evs s) with Some r' => Some (r', s) | None => Some (r, s) end | s :: rest, S n' => match run_xevs r (s_evs s) with Some r' => go r' rest n' | None => None end | [], _ => None end.\n"
         f"Eval vm_compute in match go pre (c_steps c) {k} with Some (r, s) => (s_evs s, s_alt s, frames (r_log r), frames (o_log (s_obs s))) | None => ([], [], [], []) end.\n")
        print(subprocess.run(["coqc","-Q","/verif/coq","RL","/tmp/dbg3.v"],capture_output=True,text=True,cwd="/tmp").stdout[-2500:])
        break
