#!/bin/bash
# tools/seedrun.sh <seed dir name> <property...> : apply a seeded change to /repo, run checks, undo
set -u
S=$1; shift
cd /repo && test -z "$(git status --porcelain)" || { echo "repo dirty"; exit 2; }
git -C /repo apply /verif/seeded/$S/patch.diff || { echo "apply failed"; exit 2; }
for P in "$@"; do
  ( cd /verif && timeout ${SEED_TIMEOUT:-1500} ./check $P --tier ${TIER:-quick} 2>&1 | grep -E "VIOLATION|KNOWN-FINDING|done in|^  " | cut -c1-300 | head -8 )
done
git -C /repo checkout -- . ; git -C /repo status --porcelain | head -3
