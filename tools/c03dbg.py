import json,sys,subprocess
sys.path.insert(0,'/verif')
from checks.common import *
from checks import c03
d=json.load(open(sys.argv[1])); k=int(sys.argv[2])
h=d.get("history") or json.loads(d["detail"])["history"]
h["script"]=[tuple(x) for x in h["script"]]
o=run_harness('sql',[{"engine":"disk","atomic":True,**{a:b for a,b in h['opts'].items() if b is not None},"steps":h['steps']}],jobs=1)[0]
R=Runner('C03','quick',1)
cs=c03.analyse(R,h,o)
print(R.prop_failures[:1])
open('/tmp/dbg3.v','w').write("From RL Require Import Corr.C03.\nDefinition c := mk_case "+clist(cs)+".\nEval vm_compute in check_case c.\n"
 f"Definition pre := match reopen r_init with Some r0 => r0 | None => r_init end.\n"
 f"Fixpoint go (r : rstate) (ss : list step) (n : nat) : option (rstate * step) := match ss, n with s :: _, 0 => match run_xevs r (s_evs s) with Some r' => Some (r', s) | None => Some (r, s) end | s :: rest, S n' => match run_xevs r (s_evs s) with Some r' => go r' rest n' | None => None end | [], _ => None end.\n"
 f"Eval vm_compute in match go pre (c_steps c) {k} with Some (r, s) => (s_evs s, frames (r_log r), frames (o_log (s_obs s)), r_abs r) | None => ([], [], [], m_init) end.\n")
print(subprocess.run(["coqc","-Q","/verif/coq","RL","/tmp/dbg3.v"],capture_output=True,text=True,cwd="/tmp").stdout[-3000:])
