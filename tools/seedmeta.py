#!/usr/bin/env python3
"""tools/seedmeta.py <seed> <result text> : write seeded/<seed>/meta.json from the agent's meta"""
import json, sys, os
seed, result = sys.argv[1], sys.argv[2]
d = os.path.join("/verif/seeded", seed)
a = json.load(open(os.path.join(d, "meta.agent.json")))
pid = seed.split("-")[0]
m = {"property": pid, "breaks": a.get("summary") or a.get("breaks"), "needs": a.get("needs"), "agent_ran": a.get("ran") or a.get("agent_ran"),
     "my_run": f"git -C /repo apply /verif/seeded/{seed}/patch.diff && ./check {pid}; git -C /repo checkout -- .", "result": result}
json.dump(m, open(os.path.join(d, "meta.json"), "w"), indent=1)
