import json,sys
sys.path.insert(0,'/verif')
from checks.common import *
d=json.load(open(sys.argv[1]))
c=json.loads(d['detail']) if 'detail' in d else d['case']
o=run_harness('sql',[c],jobs=1)[0]
k=0
for s,x in zip(c['steps'],o):
    if 'layout' in s:
        print(k, [(r['id'],len(r['rows']),r['dvs']) for r in x['layout']]); k+=1
    elif 'sql' in s and not s['sql'].startswith('select'): print('   ',s['sql'][:70], json.dumps(x)[:80])
    elif 'sql' not in s: print('   ',s)
print({k:v for k,v in c.items() if k!='steps'})
