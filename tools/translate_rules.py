#!/usr/bin/env python3
"""Translator for C01: reads the optimiser's rewrite rules from /repo's current source
(src/planner/rules/*.rs, every `rw!(...)`) and from the compiled rule objects (harness `rules`),
cross-checks the two readings, and regenerates
    coq/Gen/Rules.v            every rule as data (name, lhs, rhs, conditions)
    coq/Gen/ExprObligations.v  one obligation per expression rule: `sound` (proved by the generic
                               tactic) or `refuted` (with the counterexample found by enumeration)
Returns a dict describing what was generated."""
import itertools
import json
import os
import re
import sys

sys.path.insert(0, os.path.dirname(os.path.dirname(os.path.abspath(__file__))))
from checks.c17 import parse_sx as _parse_sx  # noqa: E402


def parse_sx(s):
    """like egg's parser, tolerate surplus closing parentheses at the end (add-or-distri has one)"""
    s = s.strip()
    while True:
        try:
            return _parse_sx(s)
        except ValueError as e:
            if 'trailing' in str(e) and s.endswith(')'):
                s = s[:-1].rstrip()
                continue
            raise

REPO = "/repo"
RULE_FILES = ["src/planner/rules/expr.rs", "src/planner/rules/plan.rs", "src/planner/rules/order.rs", "src/planner/rules/range.rs"]
EXPR_OPS = {"+", "-", "*", "/", "%", "=", "<>", ">", "<", ">=", "<=", "and", "or", "not", "if", "isnull"}
CMP_CONDS = {"is_greater_than_or_equal": "Z.geb", "is_greater_than": "Z.gtb", "is_less_than_or_equal": "Z.leb", "is_less_than": "Z.ltb"}


def strip_comments(src):
    return re.sub(r"//[^\n]*", "", src)


def parse_source():
    """[(file, name, lhs, rhs or None, [(cond, [args])])] for every rw! of the non-test code"""
    out = []
    for f in RULE_FILES:
        src = open(os.path.join(REPO, f)).read()
        src = src.split("#[cfg(test)]")[0]
        src = strip_comments(src)
        for m in re.finditer(r"rw!\(", src):
            i = m.end()
            depth, j, in_str = 1, i, False
            while depth and j < len(src):
                c = src[j]
                if c == '"' and src[j - 1] != "\\":
                    in_str = not in_str
                elif not in_str:
                    depth += c == "("
                    depth -= c == ")"
                j += 1
            body = src[i:j - 1]
            strs = re.findall(r'"((?:[^"\\]|\\.)*)"', body)
            if len(strs) < 2:
                continue
            name, lhs = strs[0], strs[1]
            arrow = body.index("=>")
            after = body[arrow + 2:].lstrip()
            rhs = None
            if after.startswith('"'):
                rhs = re.match(r'"((?:[^"\\]|\\.)*)"', after).group(1)
            conds = [(c, re.findall(r'"([^"]*)"', a)) for c, a in re.findall(r"\bif\s+(\w+)\s*\(([^)]*)\)", body)]
            out.append((f, name, lhs, rhs, conds))
        # the helper `pushdown(a, a_args, b, b_args)` builds "(a a_args (b b_args ?child))" => "(b b_args (a a_args ?child))"
        for m in re.finditer(r'(?<!fn )\bpushdown\(\s*"([^"]*)"\s*,\s*"([^"]*)"\s*,\s*"([^"]*)"\s*,\s*"([^"]*)"\s*\)', src):
            a, aa, b, ba = m.groups()
            out.append((f, f"pushdown-{a}-{b}", f"({a} {aa} ({b} {ba} ?child))", f"({b} {ba} ({a} {aa} ?child))", []))
    return out


def norm(s):
    if s is None:
        return None
    t = " ".join(s.replace("(", " ( ").replace(")", " ) ").split())
    t = re.sub(r"\( (\w+) \)", r"\1", t)       # egg prints a childless node without parentheses
    while t.count(")") > t.count("("):
        t = t[: t.rindex(")")].rstrip()
    return t


def ops_of(sx, acc):
    if isinstance(sx, str):
        return acc
    acc.add((sx[0], len(sx[1])))
    for a in sx[1]:
        ops_of(a, acc)
    return acc


def atoms_of(sx, acc):
    if isinstance(sx, str):
        acc.add(sx)
    else:
        for a in sx[1]:
            atoms_of(a, acc)
    return acc


def is_expr_rule(lhs, rhs):
    if rhs is None:
        return False
    try:
        l, r = parse_sx(lhs), parse_sx(rhs)
    except Exception:
        return False
    if not all(o in EXPR_OPS for o, _ in ops_of(l, set()) | ops_of(r, set())):
        return False
    for a in atoms_of(l, set()) | atoms_of(r, set()):
        if not (a.startswith("?") or a in ("true", "false", "null") or re.fullmatch(r"-?\d+", a)):
            return False
    return not isinstance(l, str)


# ---- a Python copy of Model/Rule.v's evaluator, only used to FIND counterexamples (Coq checks them)
def arith(f, a, b):
    if a is None or b is None:
        return ("ok", None) if all(x is None or isinstance(x, int) and not isinstance(x, bool) for x in (a, b)) else ("err",)
    if isinstance(a, bool) or isinstance(b, bool):
        return ("err",)
    return ("ok", f(a, b))


def quot(a, b):
    q = abs(a) // abs(b)
    return q if (a >= 0) == (b >= 0) else -q


def pev(env, e):
    if isinstance(e, str):
        if e.startswith("?"):
            return ("ok", env[e])
        return ("ok", {"true": True, "false": False, "null": None}.get(e, None if e == "null" else int(e) if re.fullmatch(r"-?\d+", e) else None))
    op, args = e
    vs = [pev(env, a) for a in args]
    if any(v[0] != "ok" for v in vs):
        return ("err",)
    vs = [v[1] for v in vs]
    isint = lambda x: isinstance(x, int) and not isinstance(x, bool)
    if len(vs) == 2:
        a, b = vs
        if op in ("+", "-", "*"):
            return arith({"+": lambda x, y: x + y, "-": lambda x, y: x - y, "*": lambda x, y: x * y}[op], a, b)
        if op in ("/", "%"):
            if isinstance(a, bool) or isinstance(b, bool):
                return ("err",)
            if a is None or b is None:
                return ("ok", None)
            if b == 0:
                return ("ok", None)
            return ("ok", quot(a, b) if op == "/" else a - b * quot(a, b))
        if op in ("=", "<>", ">", "<", ">=", "<="):
            if a is None or b is None:
                return ("ok", None)
            if isinstance(a, bool) != isinstance(b, bool):
                return ("err",)
            x, y = int(a), int(b)
            return ("ok", {"=": x == y, "<>": x != y, ">": x > y, "<": x < y, ">=": x >= y, "<=": x <= y}[op])
        if op in ("and", "or"):
            if any(isint(x) for x in (a, b)):
                return ("err",)
            if op == "and":
                return ("ok", False if a is False or b is False else (True if a is True and b is True else None))
            return ("ok", True if a is True or b is True else (False if a is False and b is False else None))
        return ("err",)
    if len(vs) == 1:
        a = vs[0]
        if op == "-":
            return ("err",) if isinstance(a, bool) else ("ok", None if a is None else -a)
        if op == "not":
            return ("err",) if isint(a) else ("ok", None if a is None else (not a))
        if op == "isnull":
            return ("ok", a is None)
        return ("err",)
    if len(vs) == 3 and op == "if":
        c, t, e2 = vs
        if isint(c):
            return ("err",)
        return ("ok", t if c is True else e2)
    return ("err",)


def cond_holds(env, cond):
    name, args = cond
    if name == "is_not_zero":
        v = env[args[0]]
        return not (isinstance(v, int) and not isinstance(v, bool) and v == 0)
    if name in CMP_CONDS:
        a, b = env[args[0]], env[args[1]]
        rel = {"is_greater_than_or_equal": lambda x, y: x >= y, "is_greater_than": lambda x, y: x > y,
               "is_less_than_or_equal": lambda x, y: x <= y, "is_less_than": lambda x, y: x < y}[name]
        if a is None and b is None:
            return rel(0, 0)
        if a is None or b is None or isinstance(a, bool) != isinstance(b, bool):
            return False
        return rel(int(a), int(b))
    return None          # unknown condition


# ---- plan rules with a meaning in Model/PlanSem.v ---------------------------------------------------------------
PLAN_OPS = {"filter", "empty", "limit", "order", "topn", "window", "join", "hashjoin", "and", "=", "list"}
JOIN_KW = {"inner", "left_outer", "right_outer", "full_outer", "semi", "anti"}
PLAN_CONDS = {"not_depend_on": "PNotDependOn"}
# counterexamples (bindings of the pattern variables) for the plan rules that are NOT sound; a rule listed here gets a
# `prefuted` obligation, every other modelled rule a `psound` one (proved by the generic tactic for ALL bindings)
_ONE_ROW_L = 'MRel [0%nat] [[(0%nat, DI32 1)]]'
PLAN_REFUTATIONS = {
    "pushdown-filter-limit": [("?cond", "MExpr [0%nat] (is2 0)"), ("?limit", "MExpr [] (fun _ => DI32 1)"), ("?offset", "MExpr [] (fun _ => DI32 0)"),
                              ("?child", "MRel [0%nat] [[(0%nat, DI32 1)]; [(0%nat, DI32 2)]]")],
    "pushdown-filter-topn": [("?cond", "MExpr [0%nat] (is2 0)"), ("?limit", "MExpr [] (fun _ => DI32 1)"), ("?offset", "MExpr [] (fun _ => DI32 0)"),
                             ("?keys", "MKeys []"), ("?child", "MRel [0%nat] [[(0%nat, DI32 1)]; [(0%nat, DI32 2)]]")],
    "pushdown-join-condition-left": [("?type", 'MLit "left_outer"'), ("?cond1", "MExpr [0%nat] (is2 0)"), ("?cond2", "MExpr [] (fun _ => DBool true)"),
                                     ("?left", _ONE_ROW_L), ("?right", "MRel [1%nat] []")],
    "pushdown-join-condition-left-1": [("?type", 'MLit "left_outer"'), ("?cond1", "MExpr [0%nat] (is2 0)"),
                                       ("?left", _ONE_ROW_L), ("?right", "MRel [1%nat] []")],
    "pushdown-join-condition-right": [("?type", 'MLit "right_outer"'), ("?cond1", "MExpr [1%nat] (is2 1)"), ("?cond2", "MExpr [] (fun _ => DBool true)"),
                                      ("?left", "MRel [0%nat] []"), ("?right", "MRel [1%nat] [[(1%nat, DI32 1)]]")],
    "pushdown-join-condition-right-1": [("?type", 'MLit "right_outer"'), ("?cond1", "MExpr [1%nat] (is2 1)"),
                                        ("?left", "MRel [0%nat] []"), ("?right", "MRel [1%nat] [[(1%nat, DI32 1)]]")],
}
# the join types for which a refuted `?type` rule is nevertheless proved sound (instances of the rule)
PLAN_INSTANCES = {
    "pushdown-join-condition-left": ["inner", "semi"],
    "pushdown-join-condition-left-1": ["inner"],
    "pushdown-join-condition-right": ["inner", "semi", "anti", "left_outer"],
}


def is_plan_rule_modelled(lhs, rhs, conds):
    if rhs is None:
        return False
    try:
        l, r = parse_sx(lhs), parse_sx(rhs)
    except Exception:
        return False
    if isinstance(l, str):
        return False
    ops = {o for o, _ in ops_of(l, set()) | ops_of(r, set())}
    if "proj" in ops:
        # a projection only at the root of both sides, with the same expression list (its output columns are positional in the model)
        def no_proj(x):
            return isinstance(x, str) or (x[0] != "proj" and all(no_proj(a) for a in x[1]))
        if isinstance(r, str) or l[0] != "proj" or r[0] != "proj" or l[1][0] != r[1][0] or not all(no_proj(a) for a in l[1] + r[1]):
            return False
        ops = ops - {"proj"}
    if not ops <= PLAN_OPS or not (ops - {"and", "list", "="}):
        return False
    for a in atoms_of(l, set()) | atoms_of(r, set()):
        if not (a.startswith("?") or a in ("true", "false", "null") or a in JOIN_KW or re.fullmatch(r"\d+", a)):
            return False
    return all(c in PLAN_CONDS for c, _ in conds)


def subst_atom(x, var, val):
    if isinstance(x, str):
        return val if x == var else x
    return (x[0], [subst_atom(a, var, val) for a in x[1]])


DOMAIN = [None, True, False, -1, 0, 1, 2]


def find_counterexample(lhs, rhs, conds):
    l, r = parse_sx(lhs), parse_sx(rhs)
    vs = sorted(a for a in atoms_of(l, set()) | atoms_of(r, set()) if a.startswith("?"))
    for vals in itertools.product(DOMAIN, repeat=len(vs)):
        env = dict(zip(vs, vals))
        hs = [cond_holds(env, c) for c in conds]
        if any(h is None for h in hs) or not all(hs):
            continue
        a, b = pev(env, l), pev(env, r)
        if a[0] == "ok" and b[0] == "ok" and a[1] != b[1]:
            return env
    return None


def cstr(s):
    return '"' + s.replace('"', '""') + '"'


def sx_coq(x):
    if isinstance(x, str):
        return f"(Plan.A {cstr(x)})"
    return f"(Plan.N {cstr(x[0])} [{'; '.join(sx_coq(a) for a in x[1])}])"


def val_coq(v):
    return "VNull" if v is None else (f"(VBool {'true' if v else 'false'})" if isinstance(v, bool) else f"(VInt ({v}))")


def ident(name, used):
    base = re.sub(r"[^A-Za-z0-9_]", "_", name)
    n, k = base, 2
    while n in used:
        n = f"{base}_{k}"
        k += 1
    used.add(n)
    return n


def translate(inventory, outdir):
    src_rules = parse_source()
    problems = []
    inv = {(norm(x["lhs"]), norm(x["rhs"]), x["name"]) for x in inventory}
    inv_names = {x["name"] for x in inventory}
    for f, name, lhs, rhs, conds in src_rules:
        if name not in inv_names:
            continue           # a rule list that no stage uses
        if (norm(lhs), norm(rhs), name) not in inv and not (rhs is None and any(n == name and norm(l) == norm(lhs) for l, _, n in inv)):
            problems.append(f"rule {name} ({f}): the source reads {lhs} => {rhs}, the compiled rule does not")
    src_names = {r[1] for r in src_rules}
    for x in inventory:
        if x["name"] not in src_names:
            problems.append(f"compiled rule {x['name']} ({x['stage']}) was not found in the source files read by the translator")
    used, seen = set(), set()
    rules_v = ["(** GENERATED by tools/translate_rules.py from /repo/src/planner/rules/*.rs on every run — do not edit. *)",
               "From RL Require Export Model.Rule.", "Open Scope string_scope.", ""]
    obl_v = ["(** GENERATED by tools/translate_rules.py on every run — do not edit.", "    One obligation per expression rewrite rule of the optimiser. *)",
             "From RL Require Import Gen.Rules Proofs.RuleTac.", ""]
    info = {"expr_sound": [], "expr_refuted": {}, "plan_rules": [], "skipped": [], "unknown_conditions": [],
            "plan_sound": [], "plan_refuted": {}, "plan_instances_sound": []}
    prules_v = ["(** GENERATED by tools/translate_rules.py from /repo/src/planner/rules/plan.rs on every run — do not edit.",
                "    The plan rewrite rules that have a meaning in Model/PlanSem.v, as data. *)",
                "From RL Require Export Model.PlanSem.", "Open Scope string_scope.", ""]
    pobl_v = ["(** GENERATED by tools/translate_rules.py on every run — do not edit.", "    One obligation per modelled plan rewrite rule. *)",
              "From RL Require Import Gen.PlanRules Proofs.PlanRuleTac.", "Open Scope string_scope.", ""]
    psound_ids, prefuted_ids = [], []
    all_names = []
    for f, name, lhs, rhs, conds in src_rules:
        key = (name, norm(lhs), norm(rhs))
        if key in seen or name not in inv_names:
            continue
        seen.add(key)
        all_names.append(name)
        if is_plan_rule_modelled(lhs, rhs, conds):
            pl, pr = parse_sx(lhs), parse_sx(rhs)
            pcs = "; ".join(f"{PLAN_CONDS[c]} {cstr(args[0])} {cstr(args[1])}" for c, args in conds)
            idn = ident("pr_" + name, used)
            prules_v.append(f"Definition {idn} : prule := mk_prule {cstr(name)} {sx_coq(pl)} {sx_coq(pr)} [{pcs}].")
            if name in PLAN_REFUTATIONS:
                wit = "; ".join(f"({cstr(k)}, {v})" for k, v in PLAN_REFUTATIONS[name])
                pobl_v.append(f"Lemma {idn}_refuted : prefuted {idn}.\nProof. prule_refuted [{wit}]. Qed.")
                # (unsound, but its result can still be built: C17's concern)
                pobl_v.append(f"Lemma {idn}_buildable : pbuildable {idn}.\nProof. first [prule_buildable_hj | prule_buildable]. Qed.")
                prefuted_ids.append(idn)
                info["plan_refuted"][name] = dict(PLAN_REFUTATIONS[name])
                for ty in PLAN_INSTANCES.get(name, []):
                    idi = ident(f"pr_{name}__{ty}", used)
                    prules_v.append(f"Definition {idi} : prule := mk_prule {cstr(name + ' @ ' + ty)} {sx_coq(subst_atom(pl, '?type', ty))} "
                                    f"{sx_coq(subst_atom(pr, '?type', ty))} [{pcs}].")
                    pobl_v.append(f"Lemma {idi}_sound : psound {idi}.\nProof. prule_sound. Qed.")
                    pobl_v.append(f"Lemma {idi}_buildable : pbuildable {idi}.\nProof. prule_buildable. Qed.")
                    psound_ids.append(idi)
                    info["plan_instances_sound"].append(f"{name} @ {ty}")
            else:
                hj = any(o == "hashjoin" for o, _ in ops_of(pl, set()) | ops_of(pr, set()))
                pobl_v.append(f"Lemma {idn}_sound : psound {idn}.\nProof. {'prule_sound_hj' if hj else 'prule_sound'}. Qed.")
                pobl_v.append(f"Lemma {idn}_buildable : pbuildable {idn}.\nProof. {'prule_buildable_hj' if hj else 'prule_buildable'}. Qed.")
                psound_ids.append(idn)
                info["plan_sound"].append(name)
        if not is_expr_rule(lhs, rhs):
            (info["plan_rules"] if rhs is None or any(o not in EXPR_OPS for o, _ in ops_of(parse_sx(lhs), set())) else info["skipped"]).append(name)
            continue
        cs = []
        unknown = False
        for c, args in conds:
            if c == "is_not_zero":
                cs.append(f"CNotZero {cstr(args[0])}")
            elif c in CMP_CONDS:
                cs.append(f"CCmp {CMP_CONDS[c]} {cstr(args[0])} {cstr(args[1])}")
            else:
                unknown = True
        if unknown:
            info["unknown_conditions"].append(name)
            continue
        idn = ident("r_" + name, used)
        rules_v.append(f"Definition {idn} : rule := mk_rule {cstr(name)} {sx_coq(parse_sx(lhs))} {sx_coq(parse_sx(rhs))} [{'; '.join(cs)}].")
        cex = find_counterexample(lhs, rhs, conds)
        if cex is None:
            obl_v.append(f"Lemma {idn}_sound : sound {idn}.\nProof. rule_sound. Qed.")
            info["expr_sound"].append(name)
        else:
            wit = "; ".join(f"({cstr(k)}, {val_coq(v)})" for k, v in sorted(cex.items()))
            obl_v.append(f"Lemma {idn}_refuted : refuted {idn}.\nProof. rule_refuted [{wit}]. Qed.")
            info["expr_refuted"][name] = {k: v for k, v in cex.items()}
    sound_ids = [l.split()[1][:-len("_sound")] for l in obl_v if l.startswith("Lemma ") and "_sound :" in l]
    ref_ids = [l.split()[1][:-len("_refuted")] for l in obl_v if l.startswith("Lemma ") and "_refuted :" in l]
    obl_v.append("")
    obl_v.append(f"Definition sound_rules : list rule := [{'; '.join(sound_ids)}].")
    obl_v.append("Lemma sound_rules_ok : Forall sound sound_rules.")
    term = "(Forall_nil _)"
    for i in reversed(sound_ids):
        term = f"(Forall_cons _ {i}_sound {term})"
    obl_v.append(f"Proof. exact {term}. Qed.")
    obl_v.append(f"Definition refuted_rules : list rule := [{'; '.join(ref_ids)}].")
    obl_v.append("Lemma refuted_rules_ok : Forall refuted refuted_rules.")
    term = "(Forall_nil _)"
    for i in reversed(ref_ids):
        term = f"(Forall_cons _ {i}_refuted {term})"
    obl_v.append(f"Proof. exact {term}. Qed.")
    pobl_v.append("")
    pobl_v.append(f"Definition psound_rules : list prule := [{'; '.join(psound_ids)}].")
    pobl_v.append("Lemma psound_rules_ok : Forall psound psound_rules.")
    term = "(Forall_nil _)"
    for i in reversed(psound_ids):
        term = f"(Forall_cons _ {i}_sound {term})"
    pobl_v.append(f"Proof. exact {term}. Qed.")
    pobl_v.append("Lemma psound_rules_buildable : Forall pbuildable psound_rules.")
    term = "(Forall_nil _)"
    for i in reversed(psound_ids):
        term = f"(Forall_cons _ {i}_buildable {term})"
    pobl_v.append(f"Proof. exact {term}. Qed.")
    pobl_v.append(f"Definition prefuted_rules : list prule := [{'; '.join(prefuted_ids)}].")
    pobl_v.append("Lemma prefuted_rules_ok : Forall prefuted prefuted_rules.")
    term = "(Forall_nil _)"
    for i in reversed(prefuted_ids):
        term = f"(Forall_cons _ {i}_refuted {term})"
    pobl_v.append(f"Proof. exact {term}. Qed.")
    pobl_v.append("Lemma prefuted_rules_buildable : Forall pbuildable prefuted_rules.")
    term = "(Forall_nil _)"
    for i in reversed(prefuted_ids):
        term = f"(Forall_cons _ {i}_buildable {term})"
    pobl_v.append(f"Proof. exact {term}. Qed.")
    rules_v.append("")
    rules_v.append(f"Definition all_rule_names : list string := [{'; '.join(cstr(n) for n in all_names)}].")
    os.makedirs(outdir, exist_ok=True)
    open(os.path.join(outdir, "Rules.v"), "w").write("\n".join(rules_v) + "\n")
    open(os.path.join(outdir, "ExprObligations.v"), "w").write("\n".join(obl_v) + "\n")
    open(os.path.join(outdir, "PlanRules.v"), "w").write("\n".join(prules_v) + "\n")
    open(os.path.join(outdir, "PlanObligations.v"), "w").write("\n".join(pobl_v) + "\n")
    info["problems"] = problems
    info["n_rules"] = len(all_names)
    return info


if __name__ == "__main__":
    from checks.common import run_harness, build_harness
    build_harness()
    inv = run_harness("rules", [{}], jobs=1)[0]
    info = translate(inv, "/verif/coq/Gen")
    print(json.dumps({k: (v if not isinstance(v, list) or len(v) < 40 else len(v)) for k, v in info.items()}, indent=1, default=str))
