#!/usr/bin/env python3
"""Regenerate MANIFEST.json from the table below (one entry per claimed property)."""
import json, os
V = os.path.dirname(os.path.dirname(os.path.abspath(__file__)))
CLAIMED = {
 "C06": ("Coq theorems over an executable model of the block codecs (fixed-width LE/BE values, varint, nullable bitmap, RLE, dictionary, blob blocks, block trailer with CRC-32) and of ConcreteColumnIterator over an arbitrary partition into blocks, composed into column_read_exact; tied to the code on every run by a correspondence check that compares the implementation's column bytes, block index and read traces with the model evaluated inside Coq, plus an independent round-trip oracle on the implementation's answers.", "DESIGN.md section 5 C06"),
 "C18": ("Coq theorems: bitwise CRC-32 changes under every single-bit flip (linear-map argument over N), hence every single-bit corruption of a checksummed block or index file is rejected, and a block that does not verify is never served on the first or any later read (cache invariant); tied to the code by enumerating bit flips / overwrites / truncations of real column and index bytes through Column::get_block, ColumnIndex::from_bytes and SQL on real files, with the model's verdict compared inside Coq and crc32fast compared with the model CRC.", "DESIGN.md section 5 C18"),
 "C14": ("Coq theorems over a slot-wise model of the vectorised kernels of array/ops.rs (arithmetic with dev-profile overflow, division/modulo by zero, comparisons, AND/OR/NOT, CASE, IN, casts among BOOLEAN and the integer widths, ||) with ARBITRARY raw content under NULL slots: each kernel computes SQL three-valued semantics slot by slot, and the logical result of a whole expression (veval, mirroring evaluator.rs) is independent of the raw bits under NULL; tied to the code by evaluating generated expression trees with the executor's Evaluator over arrays built with chosen raw bits (validity AND raw content compared inside Coq), an independent scalar SQL reference, and SQL-level runs with constant folding on/off.", "DESIGN.md section 5 C14"),
 "C11": ("Coq theorems over executable models of the join, aggregation, top-N and limit executors on chunked input: the hash join equals the nested-loop join (inner, left, semi, anti; as lists) whenever the condition is the SQL equality of the keys, joins do not depend on the chunking, sort-then-limit equals top-N; INT-vs-BIGINT keys refuted. Tied to the code by running groups of hand-built physical plans (nested-loop / hash / merge joins of all six types, simple / hash / sort aggregation, top-N vs order+limit) over the same generated inputs through executor::build, comparing each operator's output with the model inside Coq and the implementations with each other.", "DESIGN.md section 5 C11"),
 "C12": ("Coq theorems over the executable models of the order / top-N / limit executors: ORDER BY returns a permutation of its input that is sorted on the keys (per-key direction, NULL smallest), LIMIT/OFFSET returns exactly the prescribed slice of the concatenated input for EVERY chunking, top-N equals that slice of the full order. Tied to the code by plan-level correspondence (including 1023..1100-row chunks) and by SQL on both engines over tables built by several inserts, deletes and compaction, with an independent oracle; ORDER BY pk over several row-sets is a known finding.", "DESIGN.md section 5 C12"),
 "C02": ("Coq theorems that the operator models compute what SQL prescribes (WHERE keeps TRUE rows only, inner join = matching pairs, left join pads unmatched rows, comparisons with NULL are NULL, AND/OR truth tables, aggregates skip NULLs, COUNT 0 / NULL on empty input, hash join = nested loop); tied to the code by the shared operator correspondence and, for the reading of standard SQL, by differential testing of generated core-subset queries on both engines against SQLite 3.40 (bags; sequences on ORDER BY keys), optimizer on and off.", "DESIGN.md section 5 C02"),
 "C19": ("Coq theorems over a model of all scalar value types (derived Ord/Eq of DataValue, OrderedFloat for DOUBLE, lexicographic INTERVAL): equality is an equivalence, the order is reflexive / antisymmetric / transitive and consistent with equality, equal values have the same hash representative, SQL `<` is that order, integers and booleans print and parse back (via the standard library's decimal lemmas). Tied to the code by comparing the engine's cmp / == / hash-equality matrices and integer printing over generated value lists with the model inside Coq, an independent check of the laws on the implementation's answers, print-then-parse through the CSV import path, and SQL-level coherence (<, =, ORDER BY, GROUP BY, JOIN, MIN/MAX).", "DESIGN.md section 5 C19"),
 "C13": ("Coq theorem: for a row-set whose scanned column 0 is the key, sorted with duplicates allowed, the pushed-down key-range scan (start_rowid over the block first keys, per-batch position mask, early end) returns exactly the rows a full scan followed by the predicate returns — for every block partition, batch-size sequence, delete vector and all six bound kinds; the position mask on an unsorted column is refuted (known finding). Tied to the code by building real row-sets in memory with tiny blocks and scanning them through DiskRowset::start_rowid / RowSetIterator with delete vectors and key ranges (start row and visible row ids compared with the model inside Coq), an independent oracle, and SQL WHERE on the key with the optimizer on/off.", "DESIGN.md section 5 C13"),
}
HOOK_COMMITS = ["bb8b677", "d1a7d6f", "7f91116", "5cff986"]
def main():
    props = [json.loads(l) for l in open(os.path.join(V, "properties.jsonl"))]
    extra = json.load(open(os.path.join(V, "tools", "claimed_extra.json"))) if os.path.exists(os.path.join(V, "tools", "claimed_extra.json")) else {}
    claimed = dict(CLAIMED); claimed.update({k: tuple(v) for k, v in extra.get("claimed", {}).items()})
    hooks = HOOK_COMMITS + extra.get("hook_commits", [])
    checks = []
    for p in props:
        if p["id"] in claimed:
            t, ref = claimed[p["id"]]
            checks.append({"property_id": p["id"], "quick_cmd": f"./check {p['id']} --tier quick",
                "thorough_cmd": f"./check {p['id']} --tier thorough", "evidence_file": f"evidence/{p['id']}.json",
                "replay_cmd_template": f"./check {p['id']} --replay {{path}}", "engine": "coq-model+correspondence",
                "level_claimed": {"category": "proof", "text": t, "design_ref": ref},
                "level_note": "Trusted: Coq 8.16.1 kernel + vm_compute; the hand-written model is tied to the code only by the correspondence check (differential, generator-bounded); harness and case writer move data only. Axioms per Print Assumptions are listed in the evidence file; external behaviour (egg, crc32fast, csv, chrono, tokio, OS) enters as named assumptions listed in the evidence.",
                "technique": "Rocq/Coq proof over an executable model + model/implementation correspondence evaluated inside Coq"})
    na = extra.get("not_applicable", {})
    m = {"version": 1, "setup_cmd": "./setup.sh",
      "hooks": {"guard": "cargo feature `verif` (declared in /repo/Cargo.toml)",
                "enable": "the harness crate /verif/harness depends on risinglight with features=[\"verif\"], default-features=false; cargo build --offline in /verif/harness",
                "baseline_off_cmd": "cd /repo && cargo test --workspace --no-fail-fast --offline", "source_commits": hooks, "add_only": True},
      "engines": [{"name": "coq-model+correspondence", "path": "/verif/coq, /verif/harness, /verif/checks", "serves_properties": sorted(claimed),
                   "kind_free_text": "Coq 8.16.1 development (models, proofs, property theorems) + Rust harness running the implementation + Python driver writing cases_*.v evaluated by coqc/vm_compute"}],
      "checks": checks,
      "notes": "Properties are added to `checks` as their model, theorems and correspondence are built; see DESIGN.md.",
      "not_applicable": [{"property_id": p["id"], "reason": na.get(p["id"], "not claimed yet: model/theorems/correspondence for this property are still being built (the technique applies; see DESIGN.md section 5)")} for p in props if p["id"] not in claimed]}
    json.dump(m, open(os.path.join(V, "MANIFEST.json"), "w"), indent=1)
    print("claimed:", sorted(claimed))
main()
